package props

import (
	"fmt"
	"go/token"
	"strings"

	"golang.org/x/tools/go/ssa"

	"zv/core"
)

func init() { register("C31", "other", c31) }

// C31 A block counts as notarized only with enough verified tickets.
func c31(r *core.Report, p *core.Prog, thorough bool) {
	r.Explain = "Decided: (shapes) VerifyTickets aggregates, for every ticket of the list, the ticket's own signature over the given block hash under the key of the node that the round's miner pool (GetMiners(round)) returns for the ticket's verifier id — unknown verifiers fail — and signals success only after the aggregate verified without error; VerifyNotarization succeeds only after a complete duplicate-verifier scan, reachedNotarization and VerifyTickets on the same list, hash and round; UpdateBlockNotarization marks a block notarized only when reachedNotarization holds for its own round, hash and ticket list, with the count threshold taken from that round's magic block; Block.AddVerificationTicket, MergeVerificationTickets and UnknownTickets never let a verifier id in twice. (Ingress typestate) every block, ticket and notarization that enters a miner through a BlockMessage is followed forward through calls, goroutines, closures and channel hand-offs: before such a block's own ticket list can count or be merged anywhere (MergeVerificationTickets / AddVerificationTicket / UpdateBlockNotarization / SetBlockNotarized / AddRoundBlock / AddNotarizedBlock…), and before received tickets are added to a block or to the round's ticket store, an error-checked verification of exactly those tickets (signatures and distinctness) must dominate; merging into an already notarized block is accepted. Not decided: BLS mathematics; blocks fetched on demand from other nodes (their verification is in block_fetcher, outside the message paths the property names); the stake-threshold arm's arithmetic."
	r.Rule("C31.verify-tickets", "VerifyTickets: complete loop; verifier = GetMiners(round).GetNode(ticket.VerifierID) non-nil; Aggregate(verifier key, i, ticket.Signature, blockHash) error aborting; success signalled only after aggregate Verify() returned no error; nil returned only on that signal")
	r.Rule("C31.verify-notarization", "VerifyNotarization: nil list rejected; complete duplicate-verifier scan rejecting a repeat; reachedNotarization(round, hash, list) false rejected; VerifyTickets(hash, list, round) error returned")
	r.Rule("C31.threshold", "UpdateBlockNotarization sets the flag only under reachedNotarization(b.Round, b.Hash, b's tickets); reachedNotarization returns true only if the count is not below GetNotarizationThresholdCount(miners of GetMagicBlock(round)) when counting is enabled")
	r.Rule("C31.distinct", "Block.AddVerificationTicket rejects a known verifier before appending; MergeVerificationTickets and UnknownTickets admit a ticket only if its verifier id is not in the table and record it in the table on admission")
	r.Rule("C31.ingress", "no ticket list, ticket or block received in a miner BlockMessage reaches a ticket-admitting or notarization-deciding call before an error-checked verification of those very tickets dominates")
	r.Rule("C31.setters", "Block.isNotarized is written only by SetBlockNotarized; VerificationTickets only by the three ticket methods and constructors/clone")

	c31Shapes(r, p)
	c31Ingress(r, p)
}

// ---------------------------------------------------------------------------------
// shapes
// ---------------------------------------------------------------------------------

// dedupScan describes a complete loop over a ticket list that consults and updates a
// table keyed by VerifierID.
type dedupScan struct {
	rl       RangeLoop
	lookup   *ssa.Lookup
	update   *ssa.MapUpdate
	foundIf  *ssa.If
	foundIdx int // successor index taken when the id is already in the table
}

func isVerifierIDOf(v ssa.Value, rl RangeLoop) bool {
	for {
		switch x := v.(type) {
		case *ssa.Convert:
			v = x.X
			continue
		case *ssa.ChangeType:
			v = x.X
			continue
		}
		break
	}
	ld, ok := v.(*ssa.UnOp)
	if !ok || ld.Op != token.MUL {
		return false
	}
	fa, ok := ld.X.(*ssa.FieldAddr)
	return ok && core.FieldOf(fa) != nil && core.FieldOf(fa).Name() == "VerifierID" && rl.IsElem(fa.X)
}

func dedupScans(fn *ssa.Function, isList func(ssa.Value) bool) []dedupScan {
	var out []dedupScan
	for _, rl := range RangeLoops(fn) {
		if !isList(rl.Slice) {
			continue
		}
		var ds dedupScan
		ds.rl = rl
		for b := range rl.L.Body {
			for _, in := range b.Instrs {
				switch x := in.(type) {
				case *ssa.Lookup:
					if x.CommaOk && isVerifierIDOf(x.Index, rl) {
						ds.lookup = x
					}
				case *ssa.MapUpdate:
					if isVerifierIDOf(x.Key, rl) {
						ds.update = x
					}
				}
			}
		}
		if ds.lookup == nil || ds.update == nil || !sameMapValue(ds.lookup.X, ds.update.Map) {
			continue
		}
		// the branch on ok
		for _, ref := range *ds.lookup.Referrers() {
			e, ok := ref.(*ssa.Extract)
			if !ok || e.Index != 1 {
				continue
			}
			for _, r2 := range *e.Referrers() {
				switch u := r2.(type) {
				case *ssa.If:
					ds.foundIf, ds.foundIdx = u, 0
				case *ssa.UnOp:
					for _, r3 := range *u.Referrers() {
						if i3, ok := r3.(*ssa.If); ok && u.Op == token.NOT {
							ds.foundIf, ds.foundIdx = i3, 1
						}
					}
				}
			}
		}
		if ds.foundIf != nil {
			out = append(out, ds)
		}
	}
	return out
}

// recordsOnAdmission: from the not-found edge, every path to the next iteration or out
// of the loop crosses the table update.
func (ds dedupScan) recordsOnAdmission(p *core.Prog) (bool, string) {
	h := ds.rl.L.Header
	path, _, found := core.PathQuery{Fn: h.Parent(), Start: ds.foundIf,
		Barrier: func(in ssa.Instruction) bool { return in == ssa.Instruction(ds.update) },
		EdgeOK: func(from *ssa.BasicBlock, succ int) bool {
			if from == ds.foundIf.Block() && succ == ds.foundIdx {
				return false
			}
			return core.FeasibleEdge(from, succ)
		},
		Target: func(in ssa.Instruction) bool {
			return in == h.Instrs[0] || in == h.Succs[1].Instrs[0]
		}}.Find()
	if found {
		return false, "a ticket can be admitted without its verifier being recorded: " + p.PathString(path)
	}
	return true, ""
}

func c31Shapes(r *core.Report, p *core.Prog) {
	ch := "(*" + pkgChain + ".Chain)."
	vt := p.Func(ch + "VerifyTickets")
	vn := p.Func(ch + "VerifyNotarization")
	ub := p.Func(ch + "UpdateBlockNotarization")
	rn := p.Func(ch + "reachedNotarization")
	blk := "(*" + pkgBlock + ".Block)."
	addT := p.Func(blk + "AddVerificationTicket")
	mergeT := p.Func(blk + "MergeVerificationTickets")
	unk := p.Func(blk + "UnknownTickets")
	setN := p.Func(blk + "SetBlockNotarized")
	if vt == nil || vn == nil || ub == nil || rn == nil || addT == nil || mergeT == nil || unk == nil || setN == nil {
		r.Unresolved("C31.verify-tickets", "Chain.VerifyTickets/VerifyNotarization/UpdateBlockNotarization/reachedNotarization, Block.AddVerificationTicket/MergeVerificationTickets/UnknownTickets/SetBlockNotarized")
		return
	}
	c31VerifyTickets(r, p, vt)
	// ---- VerifyNotarization
	{
		hash, list, round := vn.Params[2], vn.Params[3], vn.Params[4]
		exits := core.SuccessExits(vn)
		var rnCall, vtCall *ssa.Call
		for _, c := range findCallsTo(vn, rn) {
			a := c.Call.Args
			if a[1] == ssa.Value(round) && a[2] == ssa.Value(hash) && a[3] == ssa.Value(list) {
				rnCall = c
			}
		}
		for _, c := range findCallsTo(vn, vt) {
			a := c.Call.Args
			if a[2] == ssa.Value(hash) && a[3] == ssa.Value(list) && a[4] == ssa.Value(round) && core.ErrLeadsToFailure(c) {
				vtCall = c
			}
		}
		okRN, okVT, okNil, okDup := rnCall != nil, vtCall != nil, true, false
		for _, ret := range exits {
			if rnCall != nil {
				g := false
				for _, f := range core.FactsAt(ret.Block()) {
					cv, taken := stripNot(f.Cond, f.Taken)
					if cv == ssa.Value(rnCall) && taken {
						g = true
					}
				}
				okRN = okRN && g
			}
			if vtCall != nil {
				okVT = okVT && callDominates(vtCall, ret)
			}
			nn := false
			for _, f := range core.FactsAt(ret.Block()) {
				if x, isNil, ok := core.NilFact(f); ok && !isNil && x == ssa.Value(list) {
					nn = true
				}
			}
			okNil = okNil && nn
		}
		why := "no complete duplicate scan over the list"
		for _, ds := range dedupScans(vn, func(v ssa.Value) bool { return v == ssa.Value(list) }) {
			rej := failsOnlyBlock(ds.foundIf.Block().Succs[ds.foundIdx])
			rec, d := ds.recordsOnAdmission(p)
			dom := true
			for _, ret := range exits {
				// the loop must be completed before success: its exit block dominates the return
				if !ds.rl.L.Header.Succs[1].Dominates(ret.Block()) {
					dom = false
				}
			}
			if rej && rec && dom {
				okDup, why = true, ""
			} else {
				why = fmt.Sprintf("repeat-rejected=%v recorded=%v scan-before-success=%v %s", rej, rec, dom, d)
			}
		}
		if !okDup {
			// the scan may live in a helper: an error-checked call, dominating every success
			// exit, to a function that performs the rejecting scan over its parameter
			for _, b := range vn.Blocks {
				for _, in := range b.Instrs {
					c, ok := in.(*ssa.Call)
					if !ok || !core.ErrLeadsToFailure(c) {
						continue
					}
					cal := c.Common().StaticCallee()
					if cal == nil || cal.Blocks == nil {
						continue
					}
					for i, arg := range c.Call.Args {
						if arg != ssa.Value(list) || i >= len(cal.Params) {
							continue
						}
						for _, ds := range dedupScans(cal, func(v ssa.Value) bool { return v == ssa.Value(cal.Params[i]) }) {
							rej := failsOnlyBlock(ds.foundIf.Block().Succs[ds.foundIdx])
							rec, _ := ds.recordsOnAdmission(p)
							complete := true
							for _, ret := range core.SuccessExits(cal) {
								if !ds.rl.L.Header.Succs[1].Dominates(ret.Block()) {
									complete = false
								}
							}
							dom := true
							for _, ret := range exits {
								if !callDominates(c, ret) {
									dom = false
								}
							}
							if rej && rec && complete && dom {
								okDup, why = true, ""
							}
						}
					}
				}
			}
		}
		r.Check(len(exits) > 0 && okNil, "C31.verify-notarization", "VerifyNotarization:nil-list-rejected", p.Pos(vn.Pos()), "success requires a non-nil ticket list")
		r.Check(okDup, "C31.verify-notarization", "VerifyNotarization:duplicate-verifier-rejected", p.Pos(vn.Pos()), "a complete scan rejects a list naming one verifier twice; "+why)
		r.Check(len(exits) > 0 && okRN, "C31.verify-notarization", "VerifyNotarization:threshold-on-same-list", p.Pos(vn.Pos()), "success is dominated by reachedNotarization(round, hash, list) == true on the function's own arguments")
		r.Check(len(exits) > 0 && okVT, "C31.verify-notarization", "VerifyNotarization:signatures-on-same-list", p.Pos(vn.Pos()), "success is dominated by an error-checked VerifyTickets(hash, list, round) on the function's own arguments")
	}
	// ---- UpdateBlockNotarization / reachedNotarization
	{
		b := ub.Params[1]
		n := 0
		for _, c := range findCallsTo(ub, setN) {
			n++
			g := false
			for _, f := range core.FactsAt(c.Block()) {
				cv, taken := stripNot(f.Cond, f.Taken)
				rc, ok := cv.(*ssa.Call)
				if !ok || !taken || rc.Common().StaticCallee() != rn {
					continue
				}
				a := rc.Call.Args
				_, p1 := core.BaseObject(a[1])
				_, p2 := core.BaseObject(a[2])
				r1, _ := core.BaseObject(a[1])
				r2, _ := core.BaseObject(a[2])
				tc, okT := a[3].(*ssa.Call)
				if strings.HasSuffix(p1, ".Round") && strings.HasSuffix(p2, ".Hash") && r1 == ssa.Value(b) && r2 == ssa.Value(b) && okT &&
					core.MethodName(tc.Common()) == "GetVerificationTickets" && core.Receiver(tc.Common()) == ssa.Value(b) && core.Receiver(c.Common()) == ssa.Value(b) {
					g = true
				}
			}
			r.Check(g, "C31.threshold", fmt.Sprintf("UpdateBlockNotarization:flag-under-threshold#%d", n), p.Pos(c.Pos()), "SetBlockNotarized(b) is dominated by reachedNotarization(b.Round, b.Hash, b.GetVerificationTickets()) == true")
		}
		r.Floor("C31.threshold", "SetBlockNotarized calls in UpdateBlockNotarization", n, 1)
		// reachedNotarization: true only with count >= threshold (when ThresholdByCount() > 0)
		list, round := rn.Params[3], rn.Params[1]
		var thr *ssa.Call
		for _, c := range methodCalls(rn, "GetNotarizationThresholdCount") {
			thr = c
		}
		okThr := false
		why := "no GetNotarizationThresholdCount call"
		if thr != nil {
			// argument: Size() of Miners of GetMagicBlock(round)
			_, leaves := FlowLoads(core.CallArgs(thr.Common())[0])
			mbOK := false
			for _, l := range leaves {
				if c, ok := l.(*ssa.Call); ok && core.MethodName(c.Common()) == "GetMagicBlock" && core.CallArgs(c.Common())[0] == ssa.Value(round) {
					mbOK = true
				}
			}
			fl, _ := FlowLoads(core.CallArgs(thr.Common())[0])
			okThr = mbOK && fl["MagicBlock.Miners"]
			why = fmt.Sprintf("threshold from the miners of GetMagicBlock(round): %v", okThr)
			if okThr {
				// every `return true` is not reachable along len(list) < threshold under counting
				for _, ret := range core.Returns(rn) {
					k, isK := ret.Results[0].(*ssa.Const)
					if isK && k.Value != nil && k.Value.ExactString() == "false" {
						continue
					}
					// find the comparison If: len(list) < thr
					cmpOK := false
					for _, b := range rn.Blocks {
						ifi, ok := b.Instrs[len(b.Instrs)-1].(*ssa.If)
						if !ok {
							continue
						}
						cv, pol := stripNot(ifi.Cond, true)
						bo, ok := cv.(*ssa.BinOp)
						if !ok {
							continue
						}
						x, y, op := bo.X, bo.Y, bo.Op
						if y == ssa.Value(thr) {
						} else if x == ssa.Value(thr) {
							x, y = y, x
							op = map[token.Token]token.Token{token.LSS: token.GTR, token.GTR: token.LSS, token.LEQ: token.GEQ, token.GEQ: token.LEQ, token.EQL: token.EQL, token.NEQ: token.NEQ}[op]
						} else {
							continue
						}
						lc, ok := x.(*ssa.Call)
						if !ok || core.CalleeName(lc.Common()) != "builtin.len" || lc.Call.Args[0] != ssa.Value(list) {
							continue
						}
						// edges on which len < thr may hold must not reach `return true`
						bad := false
						for succ := 0; succ < 2; succ++ {
							holds := op
							if (succ == 0) != pol {
								holds = negate(op)
							}
							if relPermits(holds, token.LSS) && reachesInstr(ifi.Block().Succs[succ], ret) {
								bad = true
							}
						}
						// and the comparison is skipped only when counting is disabled
						if !bad {
							cmpOK = true
						}
					}
					if !cmpOK {
						okThr = false
						why = "a `return true` is reachable with fewer tickets than the threshold"
					}
				}
			}
		}
		r.Check(okThr, "C31.threshold", "reachedNotarization:count-against-round-threshold", p.Pos(rn.Pos()), why)
	}
	// ---- distinctness in the three block methods
	{
		tf := p.Field(pkgBlock, "Block", "VerificationTickets")
		// AddVerificationTicket: append dominated by a complete scan that returns false on a match
		vtp := addT.Params[1]
		okA := false
		why := "no complete scan of the existing tickets comparing verifier ids"
		for _, rl := range RangeLoops(addT) {
			rt, pth := core.BaseObject(rl.Slice)
			if !(strings.HasSuffix(pth, ".VerificationTickets") && core.ParamOf(rt) == addT.Params[0]) {
				continue
			}
			// in the body: a comparison of vt.VerifierID with elem.VerifierID whose equal edge returns false
			for b := range rl.L.Body {
				ifi, ok := b.Instrs[len(b.Instrs)-1].(*ssa.If)
				if !ok {
					continue
				}
				c, ok := ifi.Cond.(*ssa.Call)
				var eqArgs []ssa.Value
				if ok && strings.HasSuffix(core.CalleeName(c.Common()), "datastore.IsEqual") {
					eqArgs = c.Call.Args
				} else if bo, ok := ifi.Cond.(*ssa.BinOp); ok && bo.Op == token.EQL {
					eqArgs = []ssa.Value{bo.X, bo.Y}
				}
				if len(eqArgs) != 2 {
					continue
				}
				m := 0
				for _, a := range eqArgs {
					if isVerifierIDOf(a, rl) {
						m |= 1
					}
					if rt, pth := core.BaseObject(a); pth == ".VerifierID" && core.ParamOf(rt) == vtp {
						m |= 2
					}
				}
				if m == 3 && returnsOnlyFalse(ifi.Block().Succs[0]) {
					// the append (store to the field) only after the loop completes
					okStore := true
					for _, w := range core.FieldWrites([]*ssa.Function{addT}, tf) {
						if !rl.L.Header.Succs[1].Dominates(w.Instr.Block()) {
							okStore = false
						}
					}
					if okStore {
						okA, why = true, ""
					} else {
						why = "the ticket list is written before the duplicate scan completed"
					}
				}
			}
		}
		r.Check(okA, "C31.distinct", "AddVerificationTicket:known-verifier-rejected", p.Pos(addT.Pos()), "a ticket of a verifier already on the block is refused; "+why)
		// MergeVerificationTickets: union closure
		for _, spec := range []struct {
			name string
			fn   *ssa.Function
			list func(f *ssa.Function) ssa.Value
		}{
			{"MergeVerificationTickets", mergeT, nil},
			{"UnknownTickets", unk, nil},
		} {
			fns := append([]*ssa.Function{spec.fn}, spec.fn.AnonFuncs...)
			ok := false
			why := "no filtering scan over the incoming list"
			for _, f := range fns {
				for _, ds := range dedupScans(f, func(v ssa.Value) bool { return core.ParamOf(v) != nil }) {
					rec, d := ds.recordsOnAdmission(p)
					// admission (append of the element) only on the not-found side
					adm := false
					for b := range ds.rl.L.Body {
						for _, in := range b.Instrs {
							c, isC := in.(*ssa.Call)
							if !isC || core.CalleeName(c.Common()) != "builtin.append" {
								continue
							}
							notFound := false
							for _, fct := range core.FactsAt(b) {
								if fct.If == ds.foundIf && fct.Taken == (ds.foundIdx != 0) {
									notFound = true
								}
							}
							adm = notFound
						}
					}
					if rec && adm {
						ok, why = true, ""
					} else {
						why = fmt.Sprintf("admitted-only-when-new=%v; %s", adm, d)
					}
				}
			}
			r.Check(ok, "C31.distinct", spec.name+":admits-each-verifier-once", p.Pos(spec.fn.Pos()), "an incoming ticket is admitted only if its verifier id is not in the table, and is entered into the table when admitted (so the incoming list is de-duplicated against itself too); "+why)
		}
		// field writers
		isN := p.Field(pkgBlock, "Block", "isNotarized")
		if tf == nil || isN == nil {
			r.Unresolved("C31.setters", "Block.VerificationTickets / Block.isNotarized")
		} else {
			allowedT := map[string]bool{"AddVerificationTicket": true, "MergeVerificationTickets": true, "Clone": true}
			for _, w := range core.FieldWrites(p.ModFuncs(), tf) {
				fn := core.EnclosingNamed(w.Fn)
				if isTooling(p, fn) || isGenerated(p, fn) {
					continue
				}
				okW := fn.Pkg != nil && fn.Pkg.Pkg.Path() == pkgBlock && allowedT[fn.Name()] || isFreshStore(w)
				r.Check(okW, "C31.setters", "VerificationTickets-writer:"+fn.String(), p.Pos(w.Instr.Pos()), "the ticket list is written only by AddVerificationTicket / MergeVerificationTickets (and Clone / freshly built blocks)")
			}
			for _, w := range core.FieldWrites(p.ModFuncs(), isN) {
				fn := core.EnclosingNamed(w.Fn)
				if isTooling(p, fn) {
					continue
				}
				okW := fn == setN || isFreshStore(w) || (fn.Pkg != nil && fn.Pkg.Pkg.Path() == pkgBlock && fn.Name() == "Clone")
				r.Check(okW, "C31.setters", "isNotarized-writer:"+fn.String(), p.Pos(w.Instr.Pos()), "the notarized flag is set only by SetBlockNotarized")
			}
		}
	}
}

func isFreshStore(w core.FieldWrite) bool {
	return w.Addr != nil && isFresh(w.Addr)
}

func reachesInstr(b *ssa.BasicBlock, target ssa.Instruction) bool {
	return b == target.Block() || reachesBlock(b, target.Block())
}

// c31VerifyTickets checks the aggregate verification routine.
func c31VerifyTickets(r *core.Report, p *core.Prog, vt *ssa.Function) {
	hashP, listP, roundP := vt.Params[2], vt.Params[3], vt.Params[4]
	all := StaticClosure([]*ssa.Function{vt}, func(f *ssa.Function) bool { return f != vt && core.EnclosingNamed(f) != vt })
	// the worker: the function that calls Aggregate
	var w *ssa.Function
	var agg *ssa.Call
	for _, f := range all {
		for _, c := range methodCalls(f, "Aggregate") {
			w, agg = f, c
		}
	}
	if !r.Check(w != nil, "C31.verify-tickets", "VerifyTickets:aggregates", p.Pos(vt.Pos()), "VerifyTickets aggregates the tickets' signatures") {
		return
	}
	toParam := func(v ssa.Value) *ssa.Parameter {
		o, _ := resolveFreeVar(v, w)
		return core.ParamOf(o)
	}
	var rl *RangeLoop
	for _, l := range RangeLoops(w) {
		if toParam(l.Slice) == listP {
			ll := l
			rl = &ll
		}
	}
	if !r.Check(rl != nil, "C31.verify-tickets", "VerifyTickets:complete-loop-over-the-list", p.Pos(w.Pos()), "the signatures are aggregated in a complete loop over the ticket list argument") {
		return
	}
	// success signal: close(ch) — must come after the loop and after Verify() == nil error
	var closes []*ssa.Call
	for _, b := range w.Blocks {
		for _, in := range b.Instrs {
			if c, ok := in.(*ssa.Call); ok && core.CalleeName(c.Common()) == "builtin.close" {
				closes = append(closes, c)
			}
		}
	}
	var verify *ssa.Call
	for _, c := range methodCalls(w, "Verify") {
		if core.Receiver(c.Common()) != nil && sameMapValue(core.Receiver(c.Common()), core.Receiver(agg.Common())) {
			verify = c
		}
	}
	okSig := len(closes) == 1 && verify != nil
	why := fmt.Sprintf("%d success signals, aggregate Verify present: %v", len(closes), verify != nil)
	if okSig {
		cl := closes[0]
		errNil := false
		for _, f := range core.FactsAt(cl.Block()) {
			if x, isNil, ok := core.NilFact(f); ok && isNil {
				if e, ok := x.(*ssa.Extract); ok && e.Tuple == ssa.Value(verify) && e.Index == 1 {
					errNil = true
				}
			}
		}
		afterLoop := rl.L.Header.Succs[1].Dominates(cl.Block())
		okSig = errNil && afterLoop && callDominates(verify, cl)
		why = fmt.Sprintf("verify-error-nil=%v after-complete-loop=%v", errNil, afterLoop)
	}
	r.Check(okSig, "C31.verify-tickets", "VerifyTickets:success-only-after-aggregate-verified", p.Pos(w.Pos()), "the success signal is sent only after every ticket was aggregated and the aggregate verified without error; "+why)
	// body: every iteration passes Aggregate (paths that report an error and return are fine)
	okBody, d := rl.BodyMustPassTo(p, agg, func(in ssa.Instruction) bool { return in == rl.L.Header.Succs[1].Instrs[0] })
	okBody = okBody && errEdgesAll(agg, func(b *ssa.BasicBlock) bool { return !reachesBlock(b, rl.L.Header) })
	r.Check(okBody, "C31.verify-tickets", "VerifyTickets:every-ticket-aggregated", p.Pos(agg.Pos()), "no ticket is skipped and an aggregation error ends the verification; "+d)
	// arguments of Aggregate
	a := core.CallArgs(agg.Common())
	okArgs := len(a) == 4
	why = "unexpected Aggregate arity"
	if okArgs {
		// key: SigScheme of node N
		rt, pth := core.BaseObject(a[0])
		nodeCall, _ := core.CallOf(rt)
		keyOK := strings.HasSuffix(pth, ".SigScheme") && nodeCall != nil && core.MethodName(nodeCall.Common()) == "GetNode"
		poolOK, idOK, nonNil := false, false, false
		if keyOK {
			pool := core.Receiver(nodeCall.Common())
			if pc, ok := pool.(*ssa.Call); ok && core.MethodName(pc.Common()) == "GetMiners" && strings.HasSuffix(core.RecvTypeName(pc.Common()), "chain.Chain") {
				poolOK = toParam(core.CallArgs(pc.Common())[0]) == roundP
			}
			idOK = isVerifierIDOf(core.CallArgs(nodeCall.Common())[0], *rl)
			for _, f := range core.FactsAt(agg.Block()) {
				if x, isNil, ok := core.NilFact(f); ok && !isNil && x == ssa.Value(nodeCall) {
					nonNil = true
				}
			}
		}
		sigOK := false
		if ld, ok := a[2].(*ssa.UnOp); ok {
			if fa, ok := ld.X.(*ssa.FieldAddr); ok && core.FieldOf(fa) != nil && core.FieldOf(fa).Name() == "Signature" && rl.IsElem(fa.X) {
				sigOK = true
			}
		}
		hashOK := toParam(a[3]) == hashP
		okArgs = keyOK && poolOK && idOK && nonNil && sigOK && hashOK
		why = fmt.Sprintf("key-of-pool-node=%v pool=GetMiners(round)=%v looked-up-by-ticket-verifier=%v unknown-verifier-fails=%v ticket-signature=%v block-hash-argument=%v", keyOK, poolOK, idOK, nonNil, sigOK, hashOK)
	}
	r.Check(okArgs, "C31.verify-tickets", "VerifyTickets:signature-of-round-miner-over-hash", p.Pos(agg.Pos()), "each ticket's signature is checked over the given hash under the key of the node the round's miner pool holds for the ticket's verifier; "+why)
	// the outer function returns nil only on the success signal
	for _, f := range all {
		for _, b := range f.Blocks {
			for _, in := range b.Instrs {
				sel, ok := in.(*ssa.Select)
				if !ok {
					continue
				}
				// which state receives from the channel that the worker closes
				doneIdx := -1
				co, _ := resolveFreeVar(closes0Arg(closes), w)
				for i, st := range sel.States {
					so, _ := resolveFreeVar(st.Chan, f)
					if st.Dir == 2 /* RecvOnly */ && co != nil && so == co {
						doneIdx = i
					}
				}
				okSel := doneIdx >= 0
				for _, ret := range core.Returns(f) {
					if core.ClassifyReturn(ret) == core.ExitFailure || !reachesInstr(sel.Block(), ret) {
						continue
					}
					ei := core.ErrIndex(f)
					if ei < 0 || !core.IsNilConst(ret.Results[ei]) {
						continue // returns an error value received/derived: not a success
					}
					g := false
					for _, fc := range CmpFacts(ret.Block()) {
						if e, ok := fc.X.(*ssa.Extract); ok && e.Tuple == ssa.Value(sel) && e.Index == 0 && fc.Op == token.EQL {
							if k, isK := core.ConstInt(fc.Y); isK && int(k) == doneIdx {
								g = true
							}
						}
					}
					if !g {
						okSel = false
					}
				}
				r.Check(okSel, "C31.verify-tickets", "VerifyTickets:nil-only-on-success-signal", p.Pos(sel.Pos()), "VerifyTickets returns nil only when the worker's success signal was received")
			}
		}
	}
}

func closes0Arg(cs []*ssa.Call) ssa.Value {
	if len(cs) == 0 {
		return nil
	}
	return cs[0].Call.Args[0]
}
