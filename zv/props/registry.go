// Package props holds one checker per claimed property.
package props

import (
	"sort"

	"zv/core"
)

// Checker evaluates one property on the loaded program.
type Checker struct {
	ID    string
	Level string // "other" | "proof"
	Run   func(r *core.Report, p *core.Prog, thorough bool)
}

var registry = map[string]*Checker{}

func register(id, level string, run func(r *core.Report, p *core.Prog, thorough bool)) {
	registry[id] = &Checker{ID: id, Level: level, Run: run}
}

func Get(id string) *Checker { return registry[id] }

func IDs() []string {
	var out []string
	for k := range registry {
		out = append(out, k)
	}
	sort.Strings(out)
	return out
}
