package props

import (
	"fmt"
	"go/token"
	"strings"

	"golang.org/x/tools/go/ssa"

	"zv/core"
)

func init() { register("C24", "other", c24) }

const pkgStorage = "0chain.net/smartcontract/storagesc"

// C24 Free-storage grants stay within assigner limits and redeem once.
func c24(r *core.Report, p *core.Prog, thorough bool) {
	r.Explain = "Decided (structure of storagesc.freeAllocationRequest and freeStorageAssigner.validate): every state-writing step of the grant is dominated by txn.ClientID == marker.Recipient and by an error-checked assigner.validate(marker, …, coin, …) on the assigner loaded for marker.Assigner, with coin parsed from marker.FreeTokens; validate succeeds only if the signature check against the assigner's registered key returned (true, nil), CurrentRedeemed + value (checked addition) does not exceed TotalLimit, value does not exceed IndividualLimit, and a full scan of RedeemedNonces found no entry equal to marker.Nonce; every successful grant appends marker.Nonce to RedeemedNonces, adds the marker's tokens to CurrentRedeemed (checked addition) and saves the assigner, errors aborting; nothing else writes those two fields except by appending / adding; assigners are registered only behind the owner authorisation. Not decided: signature scheme soundness; the arithmetic value of the limits."
	r.Rule("C24.recipient", "freeAllocationRequest: every state-writing call is dominated by txn.ClientID == marker.Recipient")
	r.Rule("C24.validated", "freeAllocationRequest: every state-writing call is dominated by an error-checked validate(marker, _, ParseZCN(marker.FreeTokens), _) on the assigner returned (error-checked) by getFreeStorageAssigner(marker.Assigner)")
	r.Rule("C24.validate-body", "validate: each success exit is dominated by signature verified == true (error aborting, key = fsa.PublicKey), AddCoin(fsa.CurrentRedeemed, value) <= fsa.TotalLimit, value <= fsa.IndividualLimit, and lies behind a complete range scan of fsa.RedeemedNonces whose equality with marker.Nonce fails")
	r.Rule("C24.redeemed-persisted", "freeAllocationRequest: every success exit passes RedeemedNonces = append(RedeemedNonces, marker.Nonce), CurrentRedeemed = AddCoin(CurrentRedeemed, ParseZCN(marker.FreeTokens)) and an error-checked assigner.save after both")
	r.Rule("C24.field-writers", "RedeemedNonces is only ever extended by append to itself; CurrentRedeemed only by checked addition to itself (node code)")
	r.Rule("C24.assigner-owner", "addFreeStorageAssigner: the assigner save is dominated by an error-checked AuthorizeWithOwner")

	far := p.Func("(*" + pkgStorage + ".StorageSmartContract).freeAllocationRequest")
	val := p.Func("(*" + pkgStorage + ".freeStorageAssigner).validate")
	get := p.Func("(*" + pkgStorage + ".StorageSmartContract).getFreeStorageAssigner")
	save := p.Func("(*" + pkgStorage + ".freeStorageAssigner).save")
	addA := p.Func("(*" + pkgStorage + ".StorageSmartContract).addFreeStorageAssigner")
	verify := p.Func(pkgStorage + ".verifyFreeAllocationRequestNew")
	nonces := p.Field(pkgStorage, "freeStorageAssigner", "RedeemedNonces")
	cur := p.Field(pkgStorage, "freeStorageAssigner", "CurrentRedeemed")
	if far == nil || val == nil || get == nil || save == nil || addA == nil || verify == nil || nonces == nil || cur == nil {
		r.Unresolved("C24.validated", "freeAllocationRequest/validate/getFreeStorageAssigner/save/addFreeStorageAssigner/verifyFreeAllocationRequestNew/fields")
		return
	}
	// the marker: the one freeStorageMarker object of the request, whatever it is called and
	// whether decoded in place or by a helper that returns it (identified by its type)
	isMarker := func(v ssa.Value) bool {
		root, path := core.BaseObject(v)
		if root == nil || path != "" {
			return false
		}
		return core.NamedName(derefType(root.Type())) == pkgStorage+".freeStorageMarker"
	}
	isMarkerField := func(v ssa.Value, field string) bool {
		if describe(v) == "local:marker."+field || strings.HasSuffix(describe(v), "marker."+field) {
			return true
		}
		root, path := core.BaseObject(v)
		return root != nil && path == "."+field && core.NamedName(derefType(root.Type())) == pkgStorage+".freeStorageMarker"
	}
	fromFreeTokens := func(v ssa.Value) bool {
		c, idx := core.CallOf(v)
		return c != nil && idx == 0 && core.CalleeName(c.Common()) == pkgCurr+".ParseZCN" && isMarkerField(c.Call.Args[0], "FreeTokens") && core.ErrLeadsToFailure(c)
	}
	// ---- the assigner and its validation
	var getCall, valCall *ssa.Call
	if cs := findCallsTo(far, get); len(cs) == 1 {
		getCall = cs[0]
	}
	if cs := findCallsTo(far, val); len(cs) == 1 {
		valCall = cs[0]
	}
	if !r.Check(getCall != nil && valCall != nil, "C24.validated", "freeAllocationRequest:one-load-one-validate", p.Pos(far.Pos()), "exactly one getFreeStorageAssigner and one validate call") {
		return
	}
	assignerOf := func(v ssa.Value) bool {
		root, path := core.BaseObject(v)
		ex, ok := root.(*ssa.Extract)
		return ok && path == "" && ex.Tuple == ssa.Value(getCall) && ex.Index == 0
	}
	okLoad := isMarkerField(getCall.Call.Args[1], "Assigner") && core.ErrLeadsToFailure(getCall)
	r.Check(okLoad, "C24.validated", "freeAllocationRequest:assigner-of-marker", p.Pos(getCall.Pos()), "the assigner is loaded for marker.Assigner and a load error aborts")
	va := valCall.Call.Args
	okVal := len(va) == 5 && assignerOf(va[0]) && (strings.HasSuffix(describe(va[1]), "marker") || isMarker(va[1])) && fromFreeTokens(va[3]) && core.ErrLeadsToFailure(valCall)
	r.Check(okVal, "C24.validated", "freeAllocationRequest:validate-args", p.Pos(valCall.Pos()), "validate(marker, …, ParseZCN(marker.FreeTokens), …) on the loaded assigner; its error aborts; got marker="+describe(va[1])+" value="+describe(va[3]))
	// ---- state-writing calls
	nW := 0
	for _, cs := range core.CallsIn(far, false, nil) {
		if !c48WritesState(cs) {
			continue
		}
		nW++
		key := fmt.Sprintf("freeAllocationRequest:write:%s#%d", core.MethodName(cs.Common())+calleeShort(cs.Common()), nW)
		okR := false
		for _, f := range CmpFacts(cs.Instr.Block()) {
			if f.Op == token.EQL && ((strings.HasSuffix(f.XD, "txn.ClientID") && isMarkerField(f.Y, "Recipient")) || (strings.HasSuffix(f.YD, "txn.ClientID") && isMarkerField(f.X, "Recipient"))) {
				okR = true
			}
		}
		r.Check(okR, "C24.recipient", key, p.Pos(cs.Pos()), "only the marker's named recipient may redeem it")
		r.Check(Before(valCall, cs.Instr), "C24.validated", key, p.Pos(cs.Pos()), "the grant is validated before anything is written")
	}
	r.Floor("C24.recipient", "state-writing calls in freeAllocationRequest", nW, 3)
	// ---- validate body
	c24Validate(r, p, val, verify, nonces, cur)
	// ---- redeemed persisted
	var stNonce, stCur *ssa.Store
	for _, w := range core.FieldWrites([]*ssa.Function{far}, nonces) {
		if st, ok := w.Instr.(*ssa.Store); ok && w.Kind == "store" && assignerOf(w.Addr.X) {
			if c, ok := st.Val.(*ssa.Call); ok && core.CalleeName(c.Common()) == "builtin.append" {
				el := appendElems(c)
				if loadOfField(c.Call.Args[0], nonces) != nil && assignerOf(loadOfField(c.Call.Args[0], nonces)) && len(el) == 1 && isMarkerField(el[0], "Nonce") {
					stNonce = st
				}
			}
		}
	}
	for _, cr := range CreditsOf(far, cur) {
		if st, ok := cr.W.Instr.(*ssa.Store); ok && cr.Call != nil && assignerOf(cr.W.Addr.X) && fromFreeTokens(cr.Added) && core.ErrLeadsToFailure(cr.Call) {
			stCur = st
		}
	}
	var saveCall *ssa.Call
	for _, c := range findCallsTo(far, save) {
		if assignerOf(c.Call.Args[0]) && core.ErrLeadsToFailure(c) {
			saveCall = c
		}
	}
	okN, okC, okS := stNonce != nil, stCur != nil, saveCall != nil
	dn, dc, ds := "no `RedeemedNonces = append(RedeemedNonces, marker.Nonce)` on the loaded assigner", "no `CurrentRedeemed = AddCoin(CurrentRedeemed, ParseZCN(marker.FreeTokens))` on the loaded assigner", "no error-checked assigner.save"
	if okN {
		okN, dn = MustPass(p, far, stNonce)
	}
	if okC {
		okC, dc = MustPass(p, far, stCur)
	}
	if okS {
		okS, ds = MustPass(p, far, saveCall)
		if okS && stNonce != nil && stCur != nil {
			okS = Before(stNonce, saveCall) && Before(stCur, saveCall)
			ds = "the save must follow both updates"
		}
	}
	r.Check(okN, "C24.redeemed-persisted", "freeAllocationRequest:nonce-recorded", p.Pos(far.Pos()), "every successful grant records the marker's nonce; "+dn)
	r.Check(okC, "C24.redeemed-persisted", "freeAllocationRequest:amount-recorded", p.Pos(far.Pos()), "every successful grant adds the marker's tokens to the assigner's redeemed total; "+dc)
	r.Check(okS, "C24.redeemed-persisted", "freeAllocationRequest:assigner-saved", p.Pos(far.Pos()), "the updated assigner is saved on every success path; "+ds)
	// ---- field writers
	nFW := 0
	for _, w := range core.FieldWrites(p.ModFuncs(), nonces) {
		if isGenerated(p, w.Fn) || isTooling(p, w.Fn) {
			continue
		}
		nFW++
		okW := false
		if st, ok := w.Instr.(*ssa.Store); ok && w.Kind == "store" {
			if c, ok := st.Val.(*ssa.Call); ok && core.CalleeName(c.Common()) == "builtin.append" && loadOfField(c.Call.Args[0], nonces) == w.Addr.X {
				okW = true
			}
		}
		r.Check(okW, "C24.field-writers", "RedeemedNonces-write:"+w.Fn.String(), p.Pos(w.Instr.Pos()), "the redeemed-nonce list only grows (append to itself); "+w.Kind)
	}
	for _, w := range core.FieldWrites(p.ModFuncs(), cur) {
		if isGenerated(p, w.Fn) || isTooling(p, w.Fn) {
			continue
		}
		nFW++
		okW := false
		for _, cr := range CreditsOf(w.Fn, cur) {
			if cr.W.Instr == w.Instr && cr.Call != nil {
				okW = true
			}
		}
		r.Check(okW, "C24.field-writers", "CurrentRedeemed-write:"+w.Fn.String(), p.Pos(w.Instr.Pos()), "the redeemed total only grows, by checked addition to itself; "+w.Kind)
	}
	r.Floor("C24.field-writers", "writes of RedeemedNonces/CurrentRedeemed in node code", nFW, 2)
	// ---- assigner registration
	auth := p.Func(pkgSCI + ".AuthorizeWithOwner")
	okA := false
	if auth != nil {
		as := findCallsTo(addA, auth)
		ss := findCallsTo(addA, save)
		if len(as) == 1 && core.ErrLeadsToFailure(as[0]) && len(ss) >= 1 {
			okA = true
			for _, s := range ss {
				if !Before(as[0], s) {
					okA = false
				}
			}
		}
	}
	r.Check(okA, "C24.assigner-owner", "addFreeStorageAssigner:authorised-save", p.Pos(addA.Pos()), "assigners (key and limits) are registered only by the configured owner")
}

func calleeShort(c *ssa.CallCommon) string {
	if f := core.StaticCallee(c); f != nil && core.MethodName(c) == "" {
		return f.Name()
	}
	return ""
}

func c24Validate(r *core.Report, p *core.Prog, val, verify *ssa.Function, nonces, cur interface{ Name() string }) {
	fsa := val.Params[0]
	marker := val.Params[1]
	value := val.Params[3]
	// isFsaField / isValue see through helper bindings (core.Bound): a limit test moved into
	// a guard helper of validate is imported at the call site with the helper's values bound
	// to validate's arguments.
	isFsaField := func(v ssa.Value, name string) bool {
		root, path := core.BaseObject(v)
		return root != nil && core.ParamOf(root) == fsa && path == "."+name
	}
	isValue := func(v ssa.Value) bool { return core.ParamOf(v) == value }
	// isSum: the checked sum AddCoin(fsa.CurrentRedeemed, value) whose error rejects
	isSum := func(v ssa.Value) bool {
		inner, bind := core.Unbind(v)
		ex, ok := inner.(*ssa.Extract)
		if !ok || ex.Index != 0 {
			return false
		}
		c, ok := ex.Tuple.(*ssa.Call)
		if !ok || core.CalleeName(c.Common()) != pkgCurr+".AddCoin" || !core.ErrLeadsToFailure(c) {
			return false
		}
		a, b := c.Call.Args[0], c.Call.Args[1]
		if bind != nil {
			a, b = core.BindValue(a, bind), core.BindValue(b, bind)
		}
		return (isFsaField(a, "CurrentRedeemed") && isValue(b)) || (isFsaField(b, "CurrentRedeemed") && isValue(a))
	}
	isNonce := func(v ssa.Value) bool {
		root, path := core.BaseObject(v)
		if al, ok := root.(*ssa.Alloc); ok {
			if sv := singleStoreOf(al); sv != nil {
				root = sv
			}
		}
		return path == ".Nonce" && core.ParamOf(root) == marker
	}
	// signature call
	vcs := findCallsTo(val, verify)
	if !r.Check(len(vcs) == 1, "C24.validate-body", "validate:one-signature-check", p.Pos(val.Pos()), fmt.Sprintf("%d verifyFreeAllocationRequestNew calls", len(vcs))) {
		return
	}
	vc := vcs[0]
	okKey := core.ParamOf(vc.Call.Args[0]) == marker && isFsaField(vc.Call.Args[1], "PublicKey") && core.ErrLeadsToFailure(vc)
	r.Check(okKey, "C24.validate-body", "validate:signature-key", p.Pos(vc.Pos()), "the marker is verified against the assigner's registered public key; an error aborts")
	// the nonce scan: a loop whose body compares an element of fsa.RedeemedNonces with marker.Nonce
	var scanHdr *ssa.BasicBlock
	scanWhy := "no range scan of fsa.RedeemedNonces comparing each element with marker.Nonce"
	for _, l := range core.Loops(val) {
		for b := range l.Body {
			for _, in := range b.Instrs {
				bo, ok := in.(*ssa.BinOp)
				if !ok || bo.Op != token.EQL {
					continue
				}
				isElem := func(v ssa.Value) bool {
					ld, ok := v.(*ssa.UnOp)
					if !ok {
						return false
					}
					ia, ok := ld.X.(*ssa.IndexAddr)
					return ok && isFsaField(ia.X, "RedeemedNonces") && c24IsRangeIndex(ia.Index, l) && c24BoundIsLen(l, ia.Index, ia.X)
				}
				if !((isElem(bo.X) && isNonce(bo.Y)) || (isElem(bo.Y) && isNonce(bo.X))) {
					continue
				}
				// equality must fail the call
				ifi, ok := b.Instrs[len(b.Instrs)-1].(*ssa.If)
				if !ok || ifi.Cond != ssa.Value(bo) {
					scanWhy = "the nonce comparison does not branch"
					continue
				}
				if !core.FailsOnly(b.Succs[0], map[*ssa.BasicBlock]bool{}) {
					scanWhy = "an equal nonce does not reject the marker"
					continue
				}
				scanHdr = l.Header
			}
		}
	}
	n := 0
	for _, ret := range core.Returns(val) {
		if core.ClassifyReturn(ret) == core.ExitFailure {
			continue
		}
		n++
		b := ret.Block()
		key := func(s string) string { return fmt.Sprintf("validate:success@b%d:%s", b.Index, s) }
		okSig := false
		for _, f := range core.FactsAt(b) {
			if ex, ok := f.Cond.(*ssa.Extract); ok && f.Taken && ex.Tuple == ssa.Value(vc) && ex.Index == 0 {
				okSig = true
			}
		}
		r.Check(okSig, "C24.validate-body", key("signature-true"), p.Pos(ret.Pos()), "success only when the signature check returned true")
		okTot, okInd := false, false
		for _, f := range CmpFacts(b) {
			x, y, op := f.X, f.Y, f.Op
			for k := 0; k < 2; k++ {
				if isSum(x) && isFsaField(y, "TotalLimit") && op == token.LEQ {
					okTot = true
				}
				if isValue(x) && isFsaField(y, "IndividualLimit") && op == token.LEQ {
					okInd = true
				}
				x, y = y, x
				op = map[token.Token]token.Token{token.LEQ: token.GEQ, token.GEQ: token.LEQ, token.LSS: token.GTR, token.GTR: token.LSS, token.EQL: token.EQL, token.NEQ: token.NEQ}[op]
			}
		}
		r.Check(okTot, "C24.validate-body", key("total-limit"), p.Pos(ret.Pos()), "CurrentRedeemed + value (checked) <= TotalLimit must hold")
		r.Check(okInd, "C24.validate-body", key("individual-limit"), p.Pos(ret.Pos()), "value <= IndividualLimit must hold")
		okScan := scanHdr != nil && scanHdr.Dominates(b) && !inLoopOf(val, scanHdr, b)
		// or a boolean membership helper of the assigner: `if fsa.hasRedeemed(marker.Nonce) { return err }`
		for _, cf := range callFacts(b) {
			h := core.StaticCallee(cf.Call.Common())
			if cf.Taken || h == nil || h.Blocks == nil || h.Pkg != val.Pkg || len(cf.Args) != 2 || len(h.Params) != 2 {
				continue
			}
			if core.ParamOf(cf.Args[0]) == fsa && isNonce(cf.Args[1]) && c24MembershipHelper(h, "RedeemedNonces") {
				okScan = true
			}
		}
		// or the library membership test: slices.Contains(fsa.RedeemedNonces, marker.Nonce) == false
		for _, f := range core.FactsAt(b) {
			cond, taken := core.NormCond(f.Cond, f.Taken)
			if c, ok := cond.(*ssa.Call); ok && !taken && core.CalleeName(c.Common()) == "slices.Contains" && len(c.Call.Args) == 2 &&
				isFsaField(c.Call.Args[0], "RedeemedNonces") && isNonce(c.Call.Args[1]) {
				okScan = true
			}
		}
		r.Check(okScan, "C24.validate-body", key("nonce-scan-complete"), p.Pos(ret.Pos()), "success only after the whole list of redeemed nonces was scanned without a match (a binary search over the append-ordered list is not a membership test); "+scanWhy)
	}
	r.Floor("C24.validate-body", "success exits of validate", n, 1)
}

// c24IsRangeIndex: idx is the induction variable of loop l stepping by one from 0 (the
// shape go/ssa gives `for _, x := range slice`).
func c24IsRangeIndex(idx ssa.Value, l *core.Loop) bool {
	bo, ok := idx.(*ssa.BinOp)
	if ok && bo.Op == token.ADD {
		if c, isC := core.ConstInt(bo.Y); isC && c == 1 {
			if ph, ok := bo.X.(*ssa.Phi); ok && ph.Block() == l.Header {
				for _, e := range ph.Edges {
					if c, isC := core.ConstInt(e); isC && c == -1 {
						return true
					}
				}
			}
		}
	}
	if ph, ok := idx.(*ssa.Phi); ok && ph.Block() == l.Header {
		for _, e := range ph.Edges {
			if c, isC := core.ConstInt(e); isC && c == 0 {
				return true
			}
		}
	}
	return false
}

func inLoopOf(fn *ssa.Function, hdr, b *ssa.BasicBlock) bool {
	for _, l := range core.Loops(fn) {
		if l.Header == hdr && l.Body[b] {
			return true
		}
	}
	return false
}

// c24BoundIsLen: the loop continues exactly while idx < len(slice).
func c24BoundIsLen(l *core.Loop, idx, slice ssa.Value) bool {
	h := l.Header
	ifi, ok := h.Instrs[len(h.Instrs)-1].(*ssa.If)
	if !ok {
		return false
	}
	bo, ok := ifi.Cond.(*ssa.BinOp)
	if !ok || bo.Op != token.LSS || bo.X != idx {
		return false
	}
	lc, ok := bo.Y.(*ssa.Call)
	return ok && core.CalleeName(lc.Common()) == "builtin.len" && lc.Call.Args[0] == slice && l.Body[h.Succs[0]] && !l.Body[h.Succs[1]]
}

// c24MembershipHelper: h(recv, x) bool ranges completely over recv.<field>, answers true
// exactly where an element equals x, and false only after the loop.
func c24MembershipHelper(h *ssa.Function, field string) bool {
	recv, x := h.Params[0], h.Params[1]
	okLoop := false
	var loop RangeLoop
	for _, rl := range RangeLoops(h) {
		root, path := core.BaseObject(rl.Slice)
		if core.ParamOf(root) == recv && path == "."+field {
			loop, okLoop = rl, true
		}
	}
	if !okLoop {
		return false
	}
	hit := false
	for b := range loop.L.Body {
		for _, in := range b.Instrs {
			bo, ok := in.(*ssa.BinOp)
			if !ok || bo.Op != token.EQL {
				continue
			}
			if !((loop.IsElem(bo.X) && core.ParamOf(bo.Y) == x) || (loop.IsElem(bo.Y) && core.ParamOf(bo.X) == x)) {
				continue
			}
			ifi, ok := b.Instrs[len(b.Instrs)-1].(*ssa.If)
			if !ok || ifi.Cond != ssa.Value(bo) {
				continue
			}
			ts := b.Succs[0]
			if ret, isRet := ts.Instrs[len(ts.Instrs)-1].(*ssa.Return); isRet && len(ret.Results) == 1 {
				if k, isK := ret.Results[0].(*ssa.Const); isK && k.Value != nil && k.Value.ExactString() == "true" {
					hit = true
				}
			}
		}
	}
	if !hit {
		return false
	}
	// every `false` return lies after the completed loop
	for _, ret := range core.Returns(h) {
		k, isK := ret.Results[0].(*ssa.Const)
		if !isK || k.Value == nil {
			return false
		}
		if k.Value.ExactString() == "false" && !(loop.L.Header.Succs[1].Dominates(ret.Block())) {
			return false
		}
	}
	return true
}
