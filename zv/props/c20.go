package props

import (
	"fmt"
	"go/token"
	"go/types"
	"sort"
	"strings"

	"golang.org/x/tools/go/ssa"

	"zv/core"
)

func init() { register("C20", "other", c20) }

type c20Merger struct {
	tag  int64
	mws  []string // names of the functions that produced the middlewares
	site *ssa.Call
	fn   *ssa.Function
}

// C20 The query database records every finalized bridge and pool event.
func c20(r *core.Report, p *core.Prog, thorough bool) {
	r.Explain = "Decided (structure of the event pipeline in smartcontract/dbs/event): every event the bridge's burn and mint handlers emit has a case in the storing switch (addStat); a tag whose handler applies an additive update (SQL expression `col + t.col`, found as a constant in the handler's call tree) is never merged with the last-wins middleware withUniqueEventOverwrite; a tag merged with that middleware whose handler identifies its row by a WHERE over several data fields is emitted with an index that covers all of them (otherwise two different rows of one block collapse); handlers that receive the merged slice never pick a constant element of it; the summing merge functions fold maps by ranging over the incoming value and writing every key into the accumulator. Not decided: SQL execution, gorm semantics, ordering between tags."
	r.Rule("C20.handled", "every event the bridge's burn and mint handlers emit has a storing case in EventDb.addStat")
	r.Rule("C20.additive-not-overwritten", "no merger built with withUniqueEventOverwrite for a tag whose addStat handler reaches an additive update expression")
	r.Rule("C20.overwrite-identity", "for a tag merged with withUniqueEventOverwrite whose handler selects its row with WHERE conditions on data fields, every such field flows into the index of every emission of that tag")
	r.Rule("C20.whole-slice", "addStat never reads a constant element of a decoded event slice")
	r.Rule("C20.merge-func", "merge functions given to withEventMerge fold map fields by ranging over the incoming value (second argument) and storing every visited key into the accumulator")

	addStat := p.Func("(*" + pkgEvent + ".EventDb).addStat")
	if addStat == nil {
		r.Unresolved("C20.handled", "EventDb.addStat")
		return
	}
	names := tagNames(p)
	tname := func(v int64) string {
		if n, ok := names[v]; ok {
			return n
		}
		return fmt.Sprintf("tag#%d", v)
	}
	// ---- cases of addStat: tag -> blocks of the case body
	caseBody := map[int64][]*ssa.BasicBlock{}
	for _, b := range addStat.Blocks {
		ifi, ok := b.Instrs[len(b.Instrs)-1].(*ssa.If)
		if !ok {
			continue
		}
		bo, ok := ifi.Cond.(*ssa.BinOp)
		if !ok || bo.Op != token.EQL {
			continue
		}
		k, isK := core.ConstInt(bo.Y)
		if !isK {
			continue
		}
		if _, pth := core.BaseObject(bo.X); !strings.HasSuffix(pth, ".Tag") {
			continue
		}
		ts := b.Succs[0]
		for _, b2 := range addStat.Blocks {
			if ts.Dominates(b2) {
				caseBody[k] = append(caseBody[k], b2)
			}
		}
	}
	r.Floor("C20.handled", "cases in addStat", len(caseBody), 40)
	// ---- emitted tags
	emitted := map[int64][]*ssa.Call{}
	for _, fn := range p.ModFuncs() {
		if isTooling(p, fn) || fn.Blocks == nil {
			continue
		}
		for _, c := range methodCalls(fn, "EmitEvent") {
			a := core.CallArgs(c.Common())
			if len(a) < 4 {
				continue
			}
			if k, ok := core.ConstInt(a[1]); ok {
				emitted[k] = append(emitted[k], c)
			}
		}
	}
	var etags []int64
	for k := range emitted {
		etags = append(etags, k)
	}
	sort.Slice(etags, func(i, j int) bool { return etags[i] < etags[j] })
	// the bridge handlers (burn, mint) and what they emit directly
	bridge := map[*ssa.Function]bool{}
	for _, api := range []string{"zcnsc:burn", "zcnsc:mint"} {
		for _, f := range StaticClosure(BuildHandlers(p).Get(api), func(f *ssa.Function) bool {
			return f.Pkg == nil || f.Pkg.Pkg.Path() != "0chain.net/smartcontract/zcnsc"
		}) {
			bridge[f] = true
		}
	}
	nBridge := 0
	for _, k := range etags {
		for _, c := range emitted[k] {
			if !bridge[c.Parent()] {
				continue
			}
			if ty, ok := core.ConstInt(core.CallArgs(c.Common())[0]); ok && !tagTypeIsStats(p, ty) {
				continue
			}
			nBridge++
			_, ok := caseBody[k]
			r.Check(ok, "C20.handled", "bridge-emits:"+tname(k), p.Pos(c.Pos()), "an event emitted by the bridge's burn/mint handler has a storing case in addStat (else it is dropped by the default arm)")
			_, hasMerger := map[int64]bool{}[k]
			_ = hasMerger
		}
	}
	r.Floor("C20.handled", "events emitted directly by zcnsc burn/mint", nBridge, 3)
	r.Info["c20_distinct_tags_emitted"] = len(etags)

	// ---- handler classification
	additive := map[int64]string{}
	for k, blocks := range caseBody {
		if why := c20Additive(p, blocks); why != "" {
			additive[k] = why
		}
	}
	// ---- mergers
	mergers := c20Mergers(p)
	r.Floor("C20.additive-not-overwritten", "event mergers resolved to a constant tag", len(mergers), 40)
	sort.Slice(mergers, func(i, j int) bool { return mergers[i].tag < mergers[j].tag })
	overwritten := map[int64]bool{}
	collapsing := map[int64]bool{} // events of one index are folded into one (last-wins or summed)
	for _, m := range mergers {
		ow := false
		for _, mw := range m.mws {
			if mw == "withUniqueEventOverwrite" {
				ow = true
			}
		}
		if ow {
			overwritten[m.tag] = true
		}
		if len(m.mws) > 0 {
			collapsing[m.tag] = true
		}
		if why, isAdd := additive[m.tag]; isAdd {
			r.Check(!ow, "C20.additive-not-overwritten", "merger:"+tname(m.tag), p.Pos(m.site.Pos()), "the handler of this tag adds to a stored value ("+why+"): merging the block's events last-wins by index drops all but one; middlewares: "+fmtList(m.mws))
		}
	}
	nAdd := 0
	for range additive {
		nAdd++
	}
	r.Floor("C20.additive-not-overwritten", "tags with an additive handler", nAdd, 8)

	// ---- overwrite + row identity
	nId, nUndec := 0, 0
	var otags []int64
	for k := range collapsing {
		otags = append(otags, k)
	}
	sort.Slice(otags, func(i, j int) bool { return otags[i] < otags[j] })
	for _, k := range otags {
		ident := c20RowIdentity(p, caseBody[k])
		if len(ident) == 0 {
			continue // identity not expressed through data fields (whole-object upsert)
		}
		for i, c := range emitted[k] {
			missing, decided := c20IndexMisses(c, ident)
			if !decided {
				nUndec++
				continue
			}
			nId++
			r.Check(len(missing) == 0, "C20.overwrite-identity", fmt.Sprintf("emit:%s#%d", tname(k), i+1), p.Pos(c.Pos()), fmt.Sprintf("row identity %v; fields not covered by the event index (events of different rows are folded into one when the block's events are merged): %v", ident, missing))
		}
	}
	r.Info["c20_overwrite_identity_sites"] = nId
	r.Info["c20_emissions_with_data_not_built_at_site_(not_decided)"] = nUndec
	r.Floor("C20.overwrite-identity", "emissions of index-folded tags with a data literal at the site", nId, 10)
	// also: an append-only handler (row identity with several fields) must not be merged last-wins unless covered — the
	// burn ticket is the instance the property names; make sure it is looked at either way
	if bt, ok := tagByName(names, "TagAddBurnTicket"); ok {
		ident := c20RowIdentity(p, caseBody[bt])
		r.Check(len(ident) >= 2, "C20.overwrite-identity", "burn-ticket:row-identity-resolved", p.Pos(addStat.Pos()), fmt.Sprintf("the burn-ticket handler identifies a row by %v (address and nonce expected)", ident))
		if overwritten[bt] {
			for i, c := range emitted[bt] {
				missing, decided := c20IndexMisses(c, ident)
				r.Check(decided && len(missing) == 0, "C20.overwrite-identity", fmt.Sprintf("burn-ticket:emit#%d", i+1), p.Pos(c.Pos()), fmt.Sprintf("merged last-wins by index; identity fields not in the index: %v", missing))
			}
		}
	} else {
		r.Unresolved("C20.overwrite-identity", "TagAddBurnTicket")
	}

	// ---- whole slice
	nIdx := 0
	for _, b := range addStat.Blocks {
		for _, in := range b.Instrs {
			ia, ok := in.(*ssa.IndexAddr)
			if !ok {
				continue
			}
			if _, isK := core.ConstInt(ia.Index); !isK {
				continue
			}
			// base: load of a pointer returned by fromEvent[[]T]
			ld, ok := ia.X.(*ssa.UnOp)
			if !ok {
				continue
			}
			if c, idx := core.CallOf(ld.X); c != nil && idx == 0 && c20IsGeneric(c, "fromEvent") {
				nIdx++
				r.Fail("C20.whole-slice", fmt.Sprintf("addStat:constant-element#%d", nIdx), p.Pos(ia.Pos()), "a handler picks one element of the merged event list: the other events of the block are never stored")
			}
		}
	}
	for _, b := range addStat.Blocks {
		for _, in := range b.Instrs {
			sl, ok := in.(*ssa.Slice)
			if !ok || (sl.Low == nil && sl.High == nil) {
				continue
			}
			ld, ok := sl.X.(*ssa.UnOp)
			if !ok {
				continue
			}
			if c, idx := core.CallOf(ld.X); c != nil && idx == 0 && c20IsGeneric(c, "fromEvent") {
				nIdx++
				r.Fail("C20.whole-slice", fmt.Sprintf("addStat:sub-slice#%d", nIdx), p.Pos(sl.Pos()), "a handler processes only part of the merged event list")
			}
		}
	}
	if nIdx == 0 {
		r.Pass("C20.whole-slice", "addStat:no-constant-element", p.Pos(addStat.Pos()), "no decoded event slice is indexed with a constant")
	}
	c20MergeFuncs(r, p)
	c20FoldCarried(r, p)
	c20RecordShape(r, p, addStat)
}

// c20IsGeneric: the call's callee is (an instance of) the generic function pkgEvent.name.
func c20IsGeneric(c *ssa.Call, name string) bool {
	n := core.CalleeName(c.Common())
	return n == pkgEvent+"."+name || strings.HasPrefix(n, pkgEvent+"."+name+"[")
}

func tagByName(names map[int64]string, n string) (int64, bool) {
	for k, v := range names {
		if v == n {
			return k, true
		}
	}
	return 0, false
}

// tagTypeIsStats: the EventType constant with this value is TypeStats.
func tagTypeIsStats(p *core.Prog, v int64) bool {
	o := p.Object(pkgEvent, "TypeStats")
	c, ok := o.(*types.Const)
	if !ok {
		return true
	}
	k, ok := constInt64(c)
	return !ok || k == v
}

// c20Additive: the case body reaches (through first-party static calls) a constant SQL
// expression that adds to the stored column.
func c20Additive(p *core.Prog, blocks []*ssa.BasicBlock) string {
	seen := map[*ssa.Function]bool{}
	var found string
	var scanInstr func(in ssa.Instruction, depth int)
	var scanFn func(f *ssa.Function, depth int)
	scanInstr = func(in ssa.Instruction, depth int) {
		ci, ok := in.(ssa.CallInstruction)
		if !ok || found != "" {
			return
		}
		c := ci.Common()
		m := core.MethodName(c)
		if m == "AddUpdate" || strings.HasSuffix(core.CalleeName(c), "gorm.Expr") || m == "Expr" {
			for _, a := range c.Args {
				_, leaves := FlowLoads(a)
				for _, l := range append(leaves, a) {
					if s, ok := core.ConstString(l); ok && strings.Contains(s, "+") {
						found = s
						return
					}
				}
			}
		}
		if cal := core.StaticCallee(c); cal != nil && cal.Pkg != nil && cal.Pkg.Pkg.Path() == pkgEvent {
			scanFn(cal, depth+1)
		}
	}
	scanFn = func(f *ssa.Function, depth int) {
		if f == nil || seen[f] || f.Blocks == nil || depth > 5 {
			return
		}
		seen[f] = true
		for _, b := range f.Blocks {
			for _, in := range b.Instrs {
				scanInstr(in, depth)
			}
		}
		for _, a := range f.AnonFuncs {
			scanFn(a, depth+1)
		}
	}
	for _, b := range blocks {
		for _, in := range b.Instrs {
			scanInstr(in, 0)
		}
	}
	return found
}

// c20Mergers resolves every newEventsMerger[T](tag, middlewares...) construction to its
// constant tag and the functions that produced its middlewares (one level of wrapper).
func c20Mergers(p *core.Prog) []c20Merger {
	var out []c20Merger
	fns := p.FuncsIn(pkgEvent)
	// generic instances are not in FuncsIn by name: scan all functions of the program in that package
	for _, f := range p.AllFuncs {
		if f.Pkg != nil && f.Pkg.Pkg.Path() == pkgEvent {
			fns = append(fns, f)
		} else if f.Pkg == nil && f.Origin() != nil && f.Origin().Pkg != nil && f.Origin().Pkg.Pkg.Path() == pkgEvent {
			fns = append(fns, f)
		}
	}
	seenFn := map[*ssa.Function]bool{}
	callersOf := func(target *ssa.Function) []*ssa.Call {
		var cs []*ssa.Call
		for _, f := range fns {
			if f.Blocks == nil {
				continue
			}
			for _, b := range f.Blocks {
				for _, in := range b.Instrs {
					if c, ok := in.(*ssa.Call); ok && c.Common().StaticCallee() == target {
						cs = append(cs, c)
					}
				}
			}
		}
		return cs
	}
	mwNames := func(v ssa.Value, fn *ssa.Function) ([]string, *ssa.Parameter) {
		// v: slice of middlewares: Slice(Alloc array) with stores, or a parameter passed through
		if prm := core.ParamOf(v); prm != nil {
			return nil, prm
		}
		var names []string
		sl, ok := v.(*ssa.Slice)
		if !ok {
			if k, ok := v.(*ssa.Const); ok && k.Value == nil {
				return names, nil
			}
			return []string{"?"}, nil
		}
		al, ok := sl.X.(*ssa.Alloc)
		if !ok {
			return []string{"?"}, nil
		}
		for _, ref := range *al.Referrers() {
			ia, ok := ref.(*ssa.IndexAddr)
			if !ok {
				continue
			}
			for _, r2 := range *ia.Referrers() {
				st, ok := r2.(*ssa.Store)
				if !ok {
					continue
				}
				if c, ok := st.Val.(*ssa.Call); ok {
					n := core.CalleeName(c.Common())
					if i := strings.LastIndex(n, "."); i >= 0 {
						n = n[i+1:]
					}
					if i := strings.Index(n, "["); i >= 0 {
						n = n[:i]
					}
					names = append(names, n)
				} else {
					names = append(names, "?")
				}
			}
		}
		sort.Strings(names)
		return names, nil
	}
	for _, f := range fns {
		if f.Blocks == nil || seenFn[f] {
			continue
		}
		seenFn[f] = true
		for _, b := range f.Blocks {
			for _, in := range b.Instrs {
				c, ok := in.(*ssa.Call)
				if !ok || !c20IsGeneric(c, "newEventsMerger") {
					continue
				}
				args := c.Call.Args
				if len(args) != 2 {
					continue
				}
				tagK, tagConst := core.ConstInt(args[0])
				mws, mwPrm := mwNames(args[1], f)
				tagPrm := core.ParamOf(args[0])
				if tagConst && mwPrm == nil {
					out = append(out, c20Merger{tagK, mws, c, f})
					continue
				}
				// wrapper: resolve at its callers
				for _, cc := range callersOf(f) {
					t2, m2 := tagK, mws
					ok2 := tagConst
					for i, prm := range f.Params {
						if i >= len(cc.Call.Args) {
							continue
						}
						if prm == tagPrm {
							if k, isK := core.ConstInt(cc.Call.Args[i]); isK {
								t2, ok2 = k, true
							}
						}
						if prm == mwPrm {
							m2, _ = mwNames(cc.Call.Args[i], cc.Parent())
						}
					}
					if ok2 {
						out = append(out, c20Merger{t2, m2, cc, f})
					}
				}
			}
		}
	}
	// de-duplicate (generic instances are visited through two lists)
	uniq := map[string]bool{}
	var res []c20Merger
	for _, m := range out {
		k := fmt.Sprintf("%d|%v|%d", m.tag, m.mws, m.site.Pos())
		if !uniq[k] {
			uniq[k] = true
			res = append(res, m)
		}
	}
	return res
}

// c20RowIdentity: data fields that flow into gorm Where(...) arguments in the handler's
// call tree, when the same function then creates the row (FirstOrCreate/Create).
func c20RowIdentity(p *core.Prog, blocks []*ssa.BasicBlock) []string {
	fields := map[string]bool{}
	seen := map[*ssa.Function]bool{}
	var scanFn func(f *ssa.Function, depth int)
	scanFn = func(f *ssa.Function, depth int) {
		if f == nil || seen[f] || f.Blocks == nil || depth > 4 {
			return
		}
		seen[f] = true
		creates := len(methodCalls(f, "FirstOrCreate"))+len(methodCalls(f, "Create")) > 0
		for _, b := range f.Blocks {
			for _, in := range b.Instrs {
				c, ok := in.(*ssa.Call)
				if !ok {
					continue
				}
				if strings.HasSuffix(core.CalleeName(c.Common()), ".CreateBuilder") && len(c.Call.Args) == 3 {
					fs, _ := FlowLoads(c.Call.Args[2])
					for k := range fs {
						if i := strings.Index(k, "."); i >= 0 {
							fields[k[i+1:]] = true
						}
					}
				}
				if creates && core.MethodName(c.Common()) == "Where" {
					for _, a := range core.CallArgs(c.Common())[1:] {
						fs, _ := FlowLoads(a)
						for k := range fs {
							if i := strings.Index(k, "."); i >= 0 {
								fields[k[i+1:]] = true
							}
						}
					}
				}
				if cal := core.StaticCallee(c.Common()); cal != nil && cal.Pkg != nil && cal.Pkg.Pkg.Path() == pkgEvent {
					scanFn(cal, depth+1)
				}
			}
		}
	}
	for _, b := range blocks {
		for _, in := range b.Instrs {
			if c, ok := in.(*ssa.Call); ok {
				if cal := core.StaticCallee(c.Common()); cal != nil && cal.Pkg != nil && cal.Pkg.Pkg.Path() == pkgEvent {
					scanFn(cal, 0)
				}
			}
		}
	}
	return sortedKeys(fields)
}

// c20IndexMisses: identity fields of the emitted data literal whose value does not flow
// into the index argument of the EmitEvent call. decided=false when the data is not a
// struct literal built at the emission site (then nothing is claimed for that site).
func c20IndexMisses(c *ssa.Call, ident []string) (missing []string, decided bool) {
	a := core.CallArgs(c.Common())
	index, data := a[2], a[3]
	_, idxLeaves := FlowLoads(index)
	idxSet := map[ssa.Value]bool{index: true}
	for _, l := range idxLeaves {
		idxSet[l] = true
	}
	// data literal: MakeInterface(Alloc) / MakeInterface(load Alloc)
	var lit *ssa.Alloc
	v := data
	for i := 0; i < 4; i++ {
		switch x := v.(type) {
		case *ssa.MakeInterface:
			v = x.X
			continue
		case *ssa.UnOp:
			v = x.X
			continue
		case *ssa.Alloc:
			lit = x
		}
		break
	}
	if lit == nil {
		return nil, false
	}
	// all field addresses of the literal, nested ones included
	type fld struct {
		fa   *ssa.FieldAddr
		name string
	}
	var flds []fld
	var collect func(base ssa.Value, depth int)
	collect = func(base ssa.Value, depth int) {
		if depth > 3 || base.Referrers() == nil {
			return
		}
		for _, ref := range *base.Referrers() {
			if fa, ok := ref.(*ssa.FieldAddr); ok && core.FieldOf(fa) != nil {
				flds = append(flds, fld{fa, core.FieldOf(fa).Name()})
				collect(fa, depth+1)
			}
		}
	}
	collect(lit, 0)
	for _, f := range ident {
		covered, present := false, false
		for _, fl := range flds {
			if fl.name != f {
				continue
			}
			for _, r2 := range *fl.fa.Referrers() {
				switch x := r2.(type) {
				case *ssa.Store:
					present = true
					if idxSet[x.Val] || core.SameValue(x.Val, index) || samePath(x.Val, index) {
						covered = true
					}
				case *ssa.UnOp:
					// the index is read back from the literal's own identity field
					if ssa.Value(x) == index || idxSet[x] {
						covered = true
					}
				}
			}
		}
		if !present {
			return nil, false // the identity field is filled elsewhere (copy of another value)
		}
		if !covered {
			missing = append(missing, f)
		}
	}
	return missing, true
}

// c20MergeFuncs checks the closures passed to withEventMerge.
func c20MergeFuncs(r *core.Report, p *core.Prog) {
	n := 0
	seen := map[*ssa.Function]bool{}
	for _, f := range p.AllFuncs {
		if f.Blocks == nil {
			continue
		}
		inPkg := (f.Pkg != nil && f.Pkg.Pkg.Path() == pkgEvent) || (f.Pkg == nil && f.Origin() != nil && f.Origin().Pkg != nil && f.Origin().Pkg.Pkg.Path() == pkgEvent)
		if !inPkg {
			continue
		}
		for _, b := range f.Blocks {
			for _, in := range b.Instrs {
				c, ok := in.(*ssa.Call)
				if !ok || !c20IsGeneric(c, "withEventMerge") || len(c.Call.Args) != 1 {
					continue
				}
				var cl *ssa.Function
				switch x := c.Call.Args[0].(type) {
				case *ssa.MakeClosure:
					cl, _ = x.Fn.(*ssa.Function)
				case *ssa.Function:
					cl = x
				case *ssa.ChangeType:
					if mk, ok := x.X.(*ssa.MakeClosure); ok {
						cl, _ = mk.Fn.(*ssa.Function)
					} else if fn, ok := x.X.(*ssa.Function); ok {
						cl = fn
					}
				}
				if cl == nil || seen[cl] || len(cl.Params) != 2 {
					continue
				}
				seen[cl] = true
				n++
				acc, inc := cl.Params[0], cl.Params[1]
				// helpers called with (a.M, b.M) are followed one level
				type loopSite struct {
					fn       *ssa.Function
					src, dst ssa.Value // expected: range over src, write into dst
				}
				sites := []loopSite{{cl, inc, acc}}
				for _, bb := range cl.Blocks {
					for _, in2 := range bb.Instrs {
						hc, ok := in2.(*ssa.Call)
						if !ok {
							continue
						}
						cal := core.StaticCallee(hc.Common())
						if cal == nil || cal.Blocks == nil || cal.Pkg == nil || cal.Pkg.Pkg.Path() != pkgEvent || len(hc.Call.Args) != len(cal.Params) {
							continue
						}
						var ps, pd ssa.Value
						for i, a := range hc.Call.Args {
							rt, _ := core.BaseObject(a)
							if core.ParamOf(rt) == inc {
								ps = cal.Params[i]
							}
							if core.ParamOf(rt) == acc {
								pd = cal.Params[i]
							}
						}
						if ps != nil && pd != nil {
							sites = append(sites, loopSite{cal, ps, pd})
						}
					}
				}
				nLoops := 0
				okAll := true
				why := ""
				for _, s := range sites {
					for _, mr := range mapRanges(s.fn) {
						nLoops++
						rt, _ := core.BaseObject(mr.Range.X)
						fromInc := core.ParamOf(rt) == s.src || rt == s.src
						fromAcc := core.ParamOf(rt) == s.dst || rt == s.dst
						if !fromInc && !fromAcc {
							nLoops--
							continue // a local working map: not a fold of one argument into the other
						}
						if !fromInc {
							okAll = false
							why = "a map of the accumulator is ranged instead of the incoming value's: keys present only in the incoming event are dropped (" + p.Pos(mr.Range.Pos()) + ")"
							continue
						}
						// every iteration stores the key into the accumulator's map
						var key ssa.Value
						for _, ref := range *mr.Next.Referrers() {
							if e, ok := ref.(*ssa.Extract); ok && e.Index == 1 {
								key = e
							}
						}
						var upd []*ssa.MapUpdate
						for bb := range mr.Loop.Body {
							for _, in2 := range bb.Instrs {
								if mu, ok := in2.(*ssa.MapUpdate); ok && mu.Key == key {
									rt2, _ := core.BaseObject(mu.Map)
									if core.ParamOf(rt2) == s.dst || rt2 == s.dst {
										upd = append(upd, mu)
									}
								}
							}
						}
						isU := map[ssa.Instruction]bool{}
						for _, u := range upd {
							isU[u] = true
						}
						h := mr.Loop.Header
						ifi := h.Instrs[len(h.Instrs)-1]
						_, _, found := core.PathQuery{Fn: s.fn, Start: ifi,
							Barrier: func(in ssa.Instruction) bool { return isU[in] },
							EdgeOK: func(from *ssa.BasicBlock, succ int) bool {
								if from == h && !mr.Loop.Body[from.Succs[succ]] {
									return false
								}
								return true
							},
							Target: func(in ssa.Instruction) bool { return in == h.Instrs[0] }}.Find()
						if len(upd) == 0 || found {
							okAll = false
							why = "an incoming key can be skipped without being stored into the accumulator (" + p.Pos(mr.Range.Pos()) + ")"
						}
					}
				}
				r.Check(okAll, "C20.merge-func", "withEventMerge:"+cl.String(), p.Pos(cl.Pos()), fmt.Sprintf("%d map loops; %s", nLoops, why))
			}
		}
	}
	r.Floor("C20.merge-func", "merge functions passed to withEventMerge", n, 8)
}

// c20FoldCarried: a loop that folds events through a mergeEventsFunc reads the left
// operand of each merge from a place into which the previous merge's result was written.
func c20FoldCarried(r *core.Report, p *core.Prog) {
	r.Rule("C20.fold-carried", "in a loop that calls a mergeEventsFunc, the left operand is read from a location (the data of the event kept in a map, or a map entry) into which the result of the merge is stored on every path to the next iteration")
	type class struct {
		kind string
		m    ssa.Value
	}
	lookupMap := func(v ssa.Value) ssa.Value {
		// v is the value (or extract #0) of a Lookup in a map
		if ex, ok := v.(*ssa.Extract); ok && ex.Index == 0 {
			v = ex.Tuple
		}
		if lk, ok := v.(*ssa.Lookup); ok {
			if _, isMap := lk.X.Type().Underlying().(*types.Map); isMap {
				return lk.X
			}
		}
		return nil
	}
	var classesOf func(v ssa.Value, d int, out map[class]bool)
	classesOf = func(v ssa.Value, d int, out map[class]bool) {
		if d > 6 {
			return
		}
		if m := lookupMap(v); m != nil {
			out[class{"map", m}] = true
			return
		}
		switch x := v.(type) {
		case *ssa.Phi:
			for _, e := range x.Edges {
				classesOf(e, d+1, out)
			}
		case *ssa.Extract:
			classesOf(x.Tuple, d+1, out)
		case *ssa.Call:
			// fromEvent(obj.Data)
			for _, a := range x.Call.Args {
				classesOf(a, d+1, out)
			}
		case *ssa.UnOp:
			if fa, ok := x.X.(*ssa.FieldAddr); ok && x.Op == token.MUL {
				if m := lookupMap(fa.X); m != nil {
					out[class{"data-of", m}] = true
				}
				return
			}
			classesOf(x.X, d+1, out)
		case *ssa.ChangeType:
			classesOf(x.X, d+1, out)
		case *ssa.MakeInterface:
			classesOf(x.X, d+1, out)
		case *ssa.TypeAssert:
			classesOf(x.X, d+1, out)
		}
	}
	var derives func(v ssa.Value, from ssa.Value, d int) bool
	derives = func(v, from ssa.Value, d int) bool {
		if v == from {
			return true
		}
		if d > 6 {
			return false
		}
		switch x := v.(type) {
		case *ssa.Extract:
			return derives(x.Tuple, from, d+1)
		case *ssa.UnOp:
			return derives(x.X, from, d+1)
		case *ssa.ChangeType:
			return derives(x.X, from, d+1)
		case *ssa.MakeInterface:
			return derives(x.X, from, d+1)
		case *ssa.Phi:
			for _, e := range x.Edges {
				if !derives(e, from, d+1) {
					return false
				}
			}
			return len(x.Edges) > 0
		}
		return false
	}
	n := 0
	for _, top := range p.FuncsIn(pkgEvent) {
		for _, fn := range withClosures(top) {
			if fn.Blocks == nil || len(fn.TypeArgs()) > 0 {
				continue // generic bodies are checked once, uninstantiated
			}
			for _, b := range fn.Blocks {
				for _, in := range b.Instrs {
					m, ok := in.(*ssa.Call)
					if !ok || m.Common().IsInvoke() || m.Common().StaticCallee() != nil || len(m.Call.Args) != 2 {
						continue
					}
					if !strings.Contains(m.Call.Value.Type().String(), "mergeEventsFunc") {
						continue
					}
					loops := core.LoopsContaining(fn, b)
					if len(loops) == 0 {
						continue
					}
					n++
					l := loops[len(loops)-1]
					key := fmt.Sprintf("%s:fold#%d", fn.String(), n)
					reads := map[class]bool{}
					classesOf(m.Call.Args[0], 0, reads)
					if len(reads) == 0 {
						r.Fail("C20.fold-carried", key, p.Pos(m.Pos()), "where the left operand comes from is not recognised")
						continue
					}
					okAny := false
					detail := ""
					for c := range reads {
						isWrite := func(x ssa.Instruction) bool {
							switch w := x.(type) {
							case *ssa.MapUpdate:
								return c.kind == "map" && w.Map == c.m && derives(w.Value, m, 0)
							case *ssa.Call:
								if c.kind != "data-of" || len(w.Call.Args) != 2 {
									return false
								}
								cal := w.Common().StaticCallee()
								if cal == nil || !strings.HasPrefix(cal.Name(), "setEventData") {
									return false
								}
								return lookupMap(w.Call.Args[0]) == c.m && derives(w.Call.Args[1], m, 0)
							case *ssa.Store:
								if c.kind != "data-of" {
									return false
								}
								if fa, ok := w.Addr.(*ssa.FieldAddr); ok && core.FieldOf(fa) != nil && core.FieldOf(fa).Name() == "Data" {
									return lookupMap(fa.X) == c.m && derives(w.Val, m, 0)
								}
							}
							return false
						}
						hdr := l.Header
						path, _, found := core.PathQuery{Fn: fn, Start: m, Barrier: isWrite, EdgeOK: core.FeasibleEdge,
							Target: func(x ssa.Instruction) bool { return x.Block() == hdr && x == hdr.Instrs[0] }}.Find()
						if !found {
							okAny = true
						} else {
							detail = "next iteration reachable without storing the merged data where the left operand is read from: " + p.PathString(path)
						}
					}
					r.Check(okAny, "C20.fold-carried", key, p.Pos(m.Pos()), "each merge starts from the previous result; "+detail)
				}
			}
		}
	}
	r.Floor("C20.fold-carried", "loops folding through a mergeEventsFunc", n, 1)
}

// c20RecordShape: a handler that builds records as struct literals and hands the slice to
// a storing helper sets every field the helper reads from the elements.
func c20RecordShape(r *core.Report, p *core.Prog, addStat *ssa.Function) {
	r.Rule("C20.record-shape", "when addStat passes a slice whose elements are all struct literals built in addStat to a helper of the event package, every element field the helper reads is set by every such literal (a field read but never set is always the zero value: the row key or amount is lost)")
	// literal fields: Alloc (complit) with FieldAddr stores
	litFields := func(al *ssa.Alloc) map[string]bool {
		out := map[string]bool{}
		for _, ref := range *al.Referrers() {
			if fa, ok := ref.(*ssa.FieldAddr); ok {
				for _, r2 := range *fa.Referrers() {
					if st, ok := r2.(*ssa.Store); ok && st.Addr == ssa.Value(fa) {
						if f := core.FieldOf(fa); f != nil {
							out[f.Name()] = true
						}
					}
				}
			}
		}
		return out
	}
	// element sources of a slice value: literals (allocs) or unknown
	var sources func(v ssa.Value, seen map[ssa.Value]bool) (lits []*ssa.Alloc, unknown bool)
	sources = func(v ssa.Value, seen map[ssa.Value]bool) ([]*ssa.Alloc, bool) {
		if seen[v] {
			return nil, false
		}
		seen[v] = true
		switch x := v.(type) {
		case *ssa.Phi:
			var out []*ssa.Alloc
			unk := false
			for _, e := range x.Edges {
				l, u := sources(e, seen)
				out = append(out, l...)
				unk = unk || u
			}
			return out, unk
		case *ssa.MakeSlice:
			if l, ok := core.ConstInt(x.Len); ok && l == 0 {
				return nil, false
			}
			return nil, true
		case *ssa.Slice:
			if mk, ok := x.X.(*ssa.Alloc); ok && mk.Comment == "makeslice" {
				if h, isC := core.ConstInt(x.High); isC && h == 0 {
					return nil, false
				}
			}
			return nil, true
		case *ssa.Const:
			return nil, x.Value != nil
		case *ssa.Call:
			if core.CalleeName(x.Common()) != "builtin.append" {
				return nil, true
			}
			base, unk := sources(x.Call.Args[0], seen)
			els, ok := arrayLiteral(x.Call.Args[1])
			if !ok {
				return base, true
			}
			for _, e := range els {
				ld, ok := e.(*ssa.UnOp)
				if !ok || ld.Op != token.MUL {
					return base, true
				}
				al, ok := ld.X.(*ssa.Alloc)
				if !ok || al.Comment != "complit" {
					return base, true
				}
				base = append(base, al)
			}
			return base, unk
		}
		return nil, true
	}
	// fields of the i-th parameter's elements read in callee
	elemReads := func(cal *ssa.Function, i int) map[string]bool {
		out := map[string]bool{}
		prm := cal.Params[i]
		isElemAddr := func(v ssa.Value) bool {
			ia, ok := v.(*ssa.IndexAddr)
			return ok && ia.X == ssa.Value(prm)
		}
		for _, b := range cal.Blocks {
			for _, in := range b.Instrs {
				switch x := in.(type) {
				case *ssa.FieldAddr:
					if isElemAddr(x.X) {
						if f := core.FieldOf(x); f != nil {
							out[f.Name()] = true
						}
					}
					// element copied to a local first
					if ld, ok := x.X.(*ssa.Alloc); ok {
						for _, sv := range core.StoresTo(ld) {
							if l2, ok := sv.(*ssa.UnOp); ok && l2.Op == token.MUL && isElemAddr(l2.X) {
								if f := core.FieldOf(x); f != nil {
									out[f.Name()] = true
								}
							}
						}
					}
				case *ssa.Field:
					if ld, ok := x.X.(*ssa.UnOp); ok && ld.Op == token.MUL && isElemAddr(ld.X) {
						if f := core.FieldOf(x); f != nil {
							out[f.Name()] = true
						}
					}
				}
			}
		}
		return out
	}
	n := 0
	for _, b := range addStat.Blocks {
		for _, in := range b.Instrs {
			c, ok := in.(*ssa.Call)
			if !ok {
				continue
			}
			cal := core.StaticCallee(c.Common())
			if cal == nil || cal.Pkg == nil || cal.Pkg.Pkg.Path() != pkgEvent || cal.Blocks == nil {
				continue
			}
			for i, a := range c.Call.Args {
				sl, ok := a.Type().Underlying().(*types.Slice)
				if !ok {
					continue
				}
				if _, isStruct := sl.Elem().Underlying().(*types.Struct); !isStruct {
					continue
				}
				lits, unknown := sources(a, map[ssa.Value]bool{})
				if unknown || len(lits) == 0 || i >= len(cal.Params) {
					continue
				}
				reads := elemReads(cal, i)
				if len(reads) == 0 {
					continue
				}
				n++
				var missing []string
				for f := range reads {
					for _, l := range lits {
						if !litFields(l)[f] {
							missing = append(missing, f)
							break
						}
					}
				}
				sort.Strings(missing)
				r.Check(len(missing) == 0, "C20.record-shape", fmt.Sprintf("addStat->%s:arg%d", cal.Name(), i), p.Pos(c.Pos()), fmt.Sprintf("helper reads %v of each element; literals set them all; never set: %v", sortedKeys(reads), missing))
			}
		}
	}
	r.Floor("C20.record-shape", "literal-built slices handed to storing helpers", n, 1)
}
