package props

import (
	"fmt"
	"strings"

	"golang.org/x/tools/go/ssa"

	"zv/core"
)

func init() { register("C04", "other", c04) }

// C04 Transactions debit only what their sender authorised.
func c04(r *core.Report, p *core.Prog, thorough bool) {
	r.Explain = "Decided: the provenance of the `from` party and of the amount of every queued transfer (contract wallet, or sender with exactly the transaction's value/fee, or the storage owner under a validated free-storage marker), and that the only validator of queued transfers (caps + signed-transfer signatures) runs after the contract queued them. Not decided: balance deltas as numbers."
	r.Rule("C04.from", "every AddTransfer source resolves (through wrappers and carrier structs) to the called contract's own address, or to the sender with the amount rooted in txn.Value (txn.Fee for the fee transfer), or to conf.OwnerId only in free_allocation_request after assigner.validate succeeded")
	r.Rule("C04.validate-order", "updateState: sctx.Validate() — the only check that caps sender transfers and verifies SignedTransfer signatures — must run after the last AddTransfer/AddSignedTransfer that can precede the commit, and its failure must not reach the commit")
	r.Rule("C04.validate-body", "StateContext.Validate: sender transfers summed with checked arithmetic and compared with value(+fee); every signed transfer passes VerifySignature(true) and Amount > 0")
	r.Rule("C04.signed", "SignedTransfer hash covers ClientID, ToClientID, Amount; VerifySignature checks the public key against the client id when asked")

	addrs := contractAddresses(p)
	r.Check(len(addrs) >= 5, "C04.from", "contract-addresses", "", fmt.Sprintf("resolved %d contract ADDRESS constants", len(addrs)))
	var fns []*ssa.Function
	for _, fn := range p.ModFuncs() {
		if p.InNode(fn) {
			fns = append(fns, fn)
		}
	}
	sites := TransferSites(fns)
	n := 0
	for _, ts := range sites {
		if isTooling(p, ts.Fn) {
			continue
		}
		n++
		en := core.EnclosingNamed(ts.Fn).String()
		key := "site:" + en
		pos := p.Pos(ts.Site.Pos())
		if !ts.Resolved {
			r.Fail("C04.from", key, pos, "transfer object could not be resolved to (from,to,amount)")
			continue
		}
		fromOs := Origins(p, ts.From, 4)
		amtOs := Origins(p, ts.Amount, 4)
		for _, o := range fromOs {
			cls := classifyParty(p, o, addrs)
			okey := key + ":from=" + cls
			switch {
			case strings.HasPrefix(cls, "contract:"), cls == "called-contract":
				r.Pass("C04.from", okey, pos, "source is the contract's own wallet: "+o.Desc)
			case cls == "sender":
				// amount leaves expressed in the same function must be the txn's value (or fee)
				var same []string
				ok := true
				for _, a := range amtOs {
					if a.Fn != o.Fn {
						continue
					}
					same = append(same, a.Desc)
					isVal := strings.HasSuffix(a.Desc, ".Value")
					isFee := strings.HasSuffix(a.Desc, ".Fee") && en == "(*"+pkgChain+".Chain).updateState"
					if !isVal && !isFee {
						ok = false
					}
				}
				r.Check(ok && len(same) > 0, "C04.from", okey, pos, fmt.Sprintf("sender %s is debited amount rooted in %v (must be the transaction's own value or fee)", o.Desc, same))
			case strings.HasSuffix(o.Desc, ".OwnerId"):
				fn := o.Fn
				okFn := fn != nil && core.EnclosingNamed(fn).String() == "(*0chain.net/smartcontract/storagesc.StorageSmartContract).freeAllocationRequest"
				guarded := false
				if okFn {
					in, _ := o.V.(ssa.Instruction)
					for _, cs := range core.CallsIn(fn, false, core.NameIs("(*0chain.net/smartcontract/storagesc.freeStorageAssigner).validate")) {
						call := cs.Instr.(*ssa.Call)
						if in != nil && call.Block().Dominates(in.Block()) && core.ErrLeadsToFailure(call) {
							guarded = true
						}
					}
				}
				r.Check(okFn && guarded, "C04.from", okey, pos, "storage owner's wallet may be debited only in free_allocation_request after assigner.validate passed: "+o.Desc)
			default:
				r.Fail("C04.from", okey, pos, "transfer source is neither the contract's wallet nor the sender: "+o.Desc)
			}
		}
		if len(fromOs) == 0 {
			r.Fail("C04.from", key, pos, "no origin found for the transfer source")
		}
	}
	r.Floor("C04.from", "AddTransfer sites", n, 18)

	// ---------------- Validate ordering in updateState
	us := p.Func("(*" + pkgChain + ".Chain).updateState")
	if us == nil {
		r.Unresolved("C04.validate-order", "updateState")
	} else {
		vals := core.CallsIn(us, false, func(c *ssa.CallCommon) bool { return isSCtxCall(c, "Validate") })
		merges := core.CallsIn(us, false, core.MethodIs("MergeMPTChanges"))
		if r.Check(len(merges) == 1, "C04.validate-order", "updateState:commit", p.Pos(us.Pos()), fmt.Sprintf("%d commits", len(merges))) {
			merge := merges[0].Instr
			// queue points: ExecuteSmartContract (contracts queue transfers) and direct AddTransfer calls
			var queue []ssa.Instruction
			for _, cs := range core.CallsIn(us, false, core.NameIs("(*"+pkgChain+".Chain).ExecuteSmartContract")) {
				queue = append(queue, cs.Instr)
			}
			for _, cs := range core.CallsIn(us, false, func(c *ssa.CallCommon) bool {
				return isSCtxCall(c, "AddTransfer") || isSCtxCall(c, "AddSignedTransfer")
			}) {
				queue = append(queue, cs.Instr)
			}
			r.Check(len(queue) >= 3, "C04.validate-order", "updateState:queue-points", p.Pos(us.Pos()), fmt.Sprintf("%d queue points (contract execution + direct transfers)", len(queue)))
			for i, q := range queue {
				// is there a path q → commit that crosses no Validate call whose failure fails the txn?
				path, _, found := core.PathQuery{Fn: us, Start: q,
					Barrier: func(in ssa.Instruction) bool {
						for _, v := range vals {
							if v.Instr == in {
								if c, ok := in.(*ssa.Call); ok && core.ErrLeadsToFailure(c) {
									return true
								}
							}
						}
						return false
					},
					EdgeOK: core.FeasibleEdge,
					Target: func(in ssa.Instruction) bool { return in == merge }}.Find()
				what := core.MethodName(q.(ssa.CallInstruction).Common())
				detail := "every path from this queue point to the commit passes Validate"
				if found {
					detail = "transfers queued here reach the commit without Validate: " + p.PathString(path)
				}
				r.Check(!found, "C04.validate-order", fmt.Sprintf("updateState:validate-after:%s:%d", what, i), posOf(p, q), detail)
			}
		}
	}

	// ---------------- Validate body
	vf := p.Func("(*" + typeSCtx + ").Validate")
	if vf == nil {
		r.Unresolved("C04.validate-body", "StateContext.Validate")
	} else {
		// Validate and the helpers it delegates part of its verdict to
		fam := GuardFamily(vf, 2)
		var vs []core.CallSite
		for _, f := range fam {
			vs = append(vs, core.CallsIn(f, false, core.NameIs("("+pkgState+".SignedTransfer).VerifySignature", "(*"+pkgState+".SignedTransfer).VerifySignature"))...)
		}
		if r.Check(len(vs) == 1, "C04.validate-body", "Validate:verify-signature", p.Pos(vf.Pos()), fmt.Sprintf("%d VerifySignature calls", len(vs))) {
			call := vs[0].Instr.(*ssa.Call)
			args := core.CallArgs(call.Common())
			c, isC := args[0].(*ssa.Const)
			r.Check(isC && c.Value != nil && c.Value.ExactString() == "true", "C04.validate-body", "Validate:verify-public-key", p.Pos(call.Pos()), "VerifySignature must be asked to check the public key against the client id")
			r.Check(core.ErrLeadsToFailure(call), "C04.validate-body", "Validate:verify-err", p.Pos(call.Pos()), "a bad signature must fail validation")
			// every queued signed transfer is verified: complete loop over the queue, the
			// check on the visited element, no iteration that skips it, loop finished before success
			okLoop, why := false, "no complete loop over the signed-transfer queue verifying the visited element"
			owner := call.Parent()
			for _, rl := range RangeLoops(owner) {
				if _, pth := core.BaseObject(rl.Slice); !strings.HasSuffix(pth, ".signedTransfers") {
					continue
				}
				recv := core.Receiver(call.Common())
				onElem := rl.IsElem(recv)
				if ld, ok := recv.(*ssa.UnOp); ok && !onElem { // value receiver: *elem
					onElem = rl.IsElem(ld.X)
				}
				okB, d := rl.BodyMustPass(p, call)
				done := true
				for _, ret := range core.SuccessExits(owner) {
					if !rl.L.Header.Succs[1].Dominates(ret.Block()) {
						done = false
					}
				}
				if onElem && okB && done {
					okLoop, why = true, ""
				} else {
					why = fmt.Sprintf("on-visited-element=%v loop-completed-before-success=%v %s", onElem, done, d)
				}
			}
			r.Check(okLoop, "C04.validate-body", "Validate:every-signed-transfer-verified", p.Pos(call.Pos()), "no queued signed transfer is accepted without its own signature check (no cache/skip path); "+why)
		}
		// cap comparison: a failure exit dominated by `amount > totalValue`
		capOK := false
		var famRets []*ssa.Return
		nAdd := 0
		for _, f := range fam {
			famRets = append(famRets, core.Returns(f)...)
			nAdd += len(core.CallsIn(f, false, core.NameIs(pkgCurr+".AddCoin")))
		}
		for _, ret := range famRets {
			if core.ClassifyReturn(ret) != core.ExitFailure {
				continue
			}
			for _, f := range core.FactsAt(ret.Block()) {
				if b, ok := f.Cond.(*ssa.BinOp); ok && isCoin(b.X.Type()) && (b.Op.String() == ">" || b.Op.String() == "<") && f.Taken {
					xs, ys := describe(b.X), describe(b.Y)
					if strings.Contains(xs+ys, "Value") {
						capOK = true
					}
				}
			}
		}
		r.Check(capOK, "C04.validate-body", "Validate:cap", p.Pos(vf.Pos()), "sender total compared with the transaction value (+fee) and rejected when larger")
		r.Check(nAdd >= 1, "C04.validate-body", "Validate:checked-sum", p.Pos(vf.Pos()), fmt.Sprintf("%d checked additions", nAdd))
	}

	// ---------------- signed transfer hash coverage
	hf := p.Func("(" + pkgState + ".SignedTransfer).computeTransferHash")
	if hf == nil {
		hf = p.Func("(*" + pkgState + ".SignedTransfer).computeTransferHash")
	}
	if hf == nil {
		r.Unresolved("C04.signed", "SignedTransfer.computeTransferHash")
	} else {
		cov := HashCoverage(p, hf)
		for _, f := range []string{"Transfer.ClientID", "Transfer.ToClientID", "Transfer.Amount"} {
			r.Check(cov[f], "C04.signed", "SignedTransfer.hash:"+f, p.Pos(hf.Pos()), "field must be part of the signed hash")
		}
	}
	vsf := p.Func("(" + pkgState + ".SignedTransfer).VerifySignature")
	if vsf == nil {
		r.Unresolved("C04.signed", "SignedTransfer.VerifySignature")
	} else {
		// the scheme's Verify result: error returned, false rejected; hash is computeTransferHash
		vc := core.CallsIn(vsf, false, core.MethodIs("Verify"))
		if r.Check(len(vc) == 1, "C04.signed", "VerifySignature:verify-call", p.Pos(vsf.Pos()), fmt.Sprintf("%d Verify calls", len(vc))) {
			call := vc[0].Instr.(*ssa.Call)
			r.Check(core.ErrLeadsToFailure(call), "C04.signed", "VerifySignature:verify-err", p.Pos(call.Pos()), "verification error must reject")
			r.Check(boolResultRejects(call), "C04.signed", "VerifySignature:verify-false", p.Pos(call.Pos()), "a false verification result must reject")
		}
		pk := core.CallsIn(vsf, false, core.NameIs("("+pkgState+".SignedTransfer).verifyPublicKey"))
		if r.Check(len(pk) == 1, "C04.signed", "VerifySignature:public-key-check", p.Pos(vsf.Pos()), fmt.Sprintf("%d verifyPublicKey calls", len(pk))) {
			r.Check(core.ErrLeadsToFailure(pk[0].Instr.(*ssa.Call)), "C04.signed", "VerifySignature:public-key-err", p.Pos(pk[0].Pos()), "key/id mismatch must reject")
		}
	}
}

// boolResultRejects: the bool result (index 0) of a (bool, error) call is tested and
// its false edge leads only to failure exits.
func boolResultRejects(call *ssa.Call) bool {
	for _, ref := range *call.Referrers() {
		e, ok := ref.(*ssa.Extract)
		if !ok || e.Index != 0 {
			continue
		}
		for _, a := range core.ValueAliases(e) {
			for _, r2 := range *a.Referrers() {
				var ifi *ssa.If
				falseIdx := 1
				switch u := r2.(type) {
				case *ssa.If:
					ifi = u
				case *ssa.UnOp: // !ok
					for _, r3 := range *u.Referrers() {
						if i3, ok := r3.(*ssa.If); ok {
							ifi, falseIdx = i3, 0
						}
					}
				}
				if ifi != nil {
					return core.FailsOnly(ifi.Block().Succs[falseIdx], map[*ssa.BasicBlock]bool{})
				}
			}
		}
	}
	return false
}

// fieldsRead returns the names of struct fields loaded anywhere in fn.
func fieldsRead(fn *ssa.Function) map[string]bool {
	out := map[string]bool{}
	for _, b := range fn.Blocks {
		for _, in := range b.Instrs {
			switch x := in.(type) {
			case *ssa.FieldAddr:
				if f := core.FieldOf(x); f != nil {
					out[f.Name()] = true
				}
			case *ssa.Field:
				if f := core.FieldOf(x); f != nil {
					out[f.Name()] = true
				}
			}
		}
	}
	return out
}
