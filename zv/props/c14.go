package props

import (
	"fmt"
	"go/token"
	"strings"

	"golang.org/x/tools/go/ssa"

	"zv/core"
)

func init() { register("C14", "other", c14) }

// canonObj looks through a load of a single-assignment local cell (a variable captured
// by a closure lives in such a cell): every load denotes the value stored once.
func canonObj(v ssa.Value) ssa.Value {
	for i := 0; i < 4; i++ {
		ld, ok := v.(*ssa.UnOp)
		if !ok || ld.Op != token.MUL {
			return v
		}
		al, ok := ld.X.(*ssa.Alloc)
		if !ok {
			return v
		}
		sv := singleStoreOf(al)
		if sv == nil {
			return v
		}
		v = sv
	}
	return v
}

// C14 Closing an allocation refunds the rest exactly once.
func c14(r *core.Report, p *core.Prog, thorough bool) {
	r.Explain = "Decided (structure of the closing paths in storagesc): finishAllocation is called only by cancelAllocationRequest and finalizeAllocationInternal; the cancel call is dominated by alloc.Owner == txn.ClientID and not-yet-expired, the finalize call by IsValidFinalizer(txn.ClientID), !alloc.Finalized and expired, each on the allocation loaded for the request id; finishAllocation ends every success path with exactly one refund transfer contract → alloc.Owner of alloc.WritePool (the same allocation object it paid the blobbers from), error aborting, and zeroes WritePool afterwards; both handlers delete the allocation node on every success path (error aborting), which is what makes a second close fail at load time; writePoolLock credits WritePool only under !(Finalized || Canceled). Not decided: the amounts paid to blobbers (challenge rewards, cancellation charge caps)."
	r.Rule("C14.callers", "finishAllocation is called only from cancelAllocationRequest and finalizeAllocationInternal")
	r.Rule("C14.cancel-guards", "cancel: finishAllocation dominated by alloc.Owner == txn.ClientID and alloc.Expiration >= txn.CreationDate, alloc = base of getAllocation(req.AllocationID)")
	r.Rule("C14.finalize-guards", "finalize: finishAllocation dominated by IsValidFinalizer(txn.ClientID) == true, alloc.Finalized == false and alloc.Expiration <= txn.CreationDate")
	r.Rule("C14.refund", "finishAllocation: one transfer (contract id → alloc.Owner, alloc.WritePool) on every success path, error aborting; WritePool is zeroed only after it; the transfer is the last token movement")
	r.Rule("C14.removed", "cancelAllocationRequest and finalizeAllocation delete the allocation's node on every success path, error aborting")
	r.Rule("C14.arg-roles", "in the call trees of cancel_allocation and finalize_allocation no call passes, to one of two same-typed parameters, a value named exactly like the other parameter (a swapped round / limit / timestamp changes which challenges count as passed and so what the blobbers are paid)")
	{
		hs := BuildHandlers(p)
		var roots []*ssa.Function
		roots = append(roots, hs.Get("storagesc:cancel_allocation")...)
		roots = append(roots, hs.Get("storagesc:finalize_allocation")...)
		if len(roots) == 0 {
			r.Unresolved("C14.arg-roles", "storagesc cancel_allocation / finalize_allocation handlers")
		} else {
			cl := StaticClosure(roots, func(f *ssa.Function) bool { return f.Pkg == nil || f.Pkg.Pkg.Path() != pkgStorage })
			swaps, n := ArgRoleSwaps(cl)
			for i, sw := range swaps {
				r.Fail("C14.arg-roles", fmt.Sprintf("%s->%s#%d", core.EnclosingNamed(sw.Call.Parent()).Name(), sw.Callee.Name(), i+1), p.Pos(sw.Call.Pos()), sw.Detail)
			}
			if len(swaps) == 0 {
				r.Pass("C14.arg-roles", "closing-call-trees", p.Pos(roots[0].Pos()), fmt.Sprintf("%d call sites with same-typed parameters, no argument carries the other parameter's name", n))
			}
			r.Floor("C14.arg-roles", "call sites with two same-typed parameters", n, 10)
		}
	}
	r.Rule("C14.lock-guard", "writePoolLock: the WritePool credit is dominated by !(alloc.Finalized || alloc.Canceled)")

	recv := "(*" + pkgStorage + ".StorageSmartContract)."
	fin := p.Func(recv + "finishAllocation")
	cancel := p.Func(recv + "cancelAllocationRequest")
	finalizeI := p.Func(recv + "finalizeAllocationInternal")
	finalize := p.Func(recv + "finalizeAllocation")
	wpl := p.Func(recv + "writePoolLock")
	wp := p.Field(pkgStorage, "storageAllocationBase", "WritePool")
	if fin == nil || cancel == nil || finalizeI == nil || finalize == nil || wpl == nil || wp == nil {
		r.Unresolved("C14.refund", "finishAllocation/cancelAllocationRequest/finalizeAllocation(Internal)/writePoolLock/WritePool")
		return
	}
	// ---- callers
	var cancelCall, finalCall *ssa.Call
	n := 0
	for _, fn := range p.ModFuncs() {
		if isTooling(p, fn) {
			continue
		}
		for _, c := range findCallsTo(fn, fin) {
			n++
			switch fn {
			case cancel:
				cancelCall = c
			case finalizeI:
				finalCall = c
			default:
				r.Fail("C14.callers", "finishAllocation-caller:"+fn.String(), p.Pos(c.Pos()), "an allocation is closed outside the two guarded handlers")
			}
		}
	}
	if !r.Check(cancelCall != nil && finalCall != nil && n == 2, "C14.callers", "finishAllocation:two-callers", p.Pos(fin.Pos()), fmt.Sprintf("%d call sites", n)) {
		return
	}
	txnOf := func(fn *ssa.Function) *ssa.Parameter {
		for _, prm := range fn.Params {
			if core.NamedName(derefType(prm.Type())) == "0chain.net/chaincore/transaction.Transaction" {
				return prm
			}
		}
		return nil
	}
	isTxnField := func(fn *ssa.Function, v ssa.Value, f string) bool {
		root, path := core.BaseObject(v)
		return path == "."+f && core.ParamOf(root) != nil && core.ParamOf(root) == txnOf(fn)
	}
	// alloc value passed to finishAllocation (arg index 3: recv, t, isEnterprise, alloc)
	allocArg := func(c *ssa.Call) ssa.Value { return c.Call.Args[3] }
	isAllocField := func(c *ssa.Call, v ssa.Value, f string) bool {
		ld, ok := v.(*ssa.UnOp)
		if !ok || ld.Op != token.MUL {
			return false
		}
		fa, ok := ld.X.(*ssa.FieldAddr)
		return ok && canonObj(fa.X) == canonObj(allocArg(c)) && core.FieldOf(fa) != nil && core.FieldOf(fa).Name() == f
	}
	allocFromRequest := func(fn *ssa.Function, c *ssa.Call) bool {
		// alloc = sa.mustBase(), sa = getAllocation(req.AllocationID, …) error-checked
		mb, ok := canonObj(allocArg(c)).(*ssa.Call)
		if !ok || core.MethodName(mb.Common()) != "mustBase" {
			return false
		}
		root, _ := core.BaseObject(core.Receiver(mb.Common()))
		ga, idx := core.CallOf(root)
		if ga == nil || idx != 0 || core.MethodName(ga.Common()) != "getAllocation" || !core.ErrLeadsToFailure(ga) {
			return false
		}
		return strings.HasSuffix(describe(core.CallArgs(ga.Common())[0]), "req.AllocationID")
	}
	cmpFact := func(c *ssa.Call, fn *ssa.Function, allocF string, ops []token.Token, txnF string) bool {
		mirror := map[token.Token]token.Token{token.EQL: token.EQL, token.NEQ: token.NEQ, token.LSS: token.GTR, token.GTR: token.LSS, token.LEQ: token.GEQ, token.GEQ: token.LEQ}
		for _, f := range CmpFacts(c.Block()) {
			for _, op := range ops {
				if f.Op == op && isAllocField(c, f.X, allocF) && isTxnField(fn, f.Y, txnF) {
					return true
				}
				if f.Op == mirror[op] && isAllocField(c, f.Y, allocF) && isTxnField(fn, f.X, txnF) {
					return true
				}
			}
		}
		return false
	}
	// ---- cancel guards
	r.Check(allocFromRequest(cancel, cancelCall), "C14.cancel-guards", "cancel:allocation-of-request", p.Pos(cancelCall.Pos()), "the allocation closed is the one loaded for req.AllocationID")
	r.Check(cmpFact(cancelCall, cancel, "Owner", []token.Token{token.EQL}, "ClientID"), "C14.cancel-guards", "cancel:owner-only", p.Pos(cancelCall.Pos()), "alloc.Owner == txn.ClientID must hold")
	r.Check(cmpFact(cancelCall, cancel, "Expiration", []token.Token{token.GEQ, token.GTR}, "CreationDate"), "C14.cancel-guards", "cancel:not-expired", p.Pos(cancelCall.Pos()), "alloc.Expiration >= txn.CreationDate must hold")
	// ---- finalize guards
	r.Check(allocFromRequest(finalizeI, finalCall), "C14.finalize-guards", "finalize:allocation-of-request", p.Pos(finalCall.Pos()), "the allocation closed is the one loaded for req.AllocationID")
	okFin, okNotFin := false, false
	for _, f := range core.FactsAt(finalCall.Block()) {
		v, taken := f.Cond, f.Taken
		for {
			if u, ok := v.(*ssa.UnOp); ok && u.Op == token.NOT {
				v, taken = u.X, !taken
				continue
			}
			break
		}
		if c, ok := v.(*ssa.Call); ok && taken && core.MethodName(c.Common()) == "IsValidFinalizer" && canonObj(core.Receiver(c.Common())) == canonObj(allocArg(finalCall)) && isTxnField(finalizeI, core.CallArgs(c.Common())[0], "ClientID") {
			okFin = true
		}
		if !taken && isAllocField(finalCall, v, "Finalized") {
			okNotFin = true
		}
	}
	r.Check(okFin, "C14.finalize-guards", "finalize:valid-finalizer", p.Pos(finalCall.Pos()), "alloc.IsValidFinalizer(txn.ClientID) must hold (owner or one of the allocation's blobbers)")
	r.Check(okNotFin, "C14.finalize-guards", "finalize:not-finalized", p.Pos(finalCall.Pos()), "alloc.Finalized must be false")
	r.Check(cmpFact(finalCall, finalizeI, "Expiration", []token.Token{token.LEQ, token.LSS}, "CreationDate"), "C14.finalize-guards", "finalize:expired", p.Pos(finalCall.Pos()), "alloc.Expiration <= txn.CreationDate must hold")
	// ---- refund
	allocPrm := fin.Params[3]
	isPrmField := func(v ssa.Value, f string) bool {
		ld, ok := v.(*ssa.UnOp)
		if !ok || ld.Op != token.MUL {
			return false
		}
		fa, ok := ld.X.(*ssa.FieldAddr)
		return ok && fa.X == ssa.Value(allocPrm) && core.FieldOf(fa) != nil && core.FieldOf(fa).Name() == f
	}
	var refund *TransferSite
	nRef := 0
	ts := TransferSites([]*ssa.Function{fin})
	for i := range ts {
		t := &ts[i]
		if !t.Resolved {
			r.Fail("C14.refund", fmt.Sprintf("finishAllocation:transfer#%d:unresolved", i), p.Pos(t.Site.Pos()), "a transfer whose parties cannot be resolved")
			continue
		}
		if isPrmField(t.Amount, "WritePool") {
			nRef++
			refund = t
		}
	}
	if r.Check(nRef == 1, "C14.refund", "finishAllocation:one-refund", p.Pos(fin.Pos()), fmt.Sprintf("%d transfers of alloc.WritePool in finishAllocation (want 1)", nRef)) {
		fromD, toOK := describe(refund.From), isPrmField(refund.To, "Owner")
		r.Check(toOK, "C14.refund", "finishAllocation:refund-to-owner", p.Pos(refund.Site.Pos()), "the remaining write pool goes to alloc.Owner (not to the sender of the closing transaction: a blobber may finalize); got "+describe(refund.To))
		r.Check(strings.HasSuffix(fromD, ".ID") && strings.HasPrefix(fromD, "sc."), "C14.refund", "finishAllocation:refund-from-contract", p.Pos(refund.Site.Pos()), "paid from the storage contract's own account; got "+fromD)
		okMP, d := MustPass(p, fin, refund.Site.Instr)
		if c, ok := refund.Site.Instr.(*ssa.Call); ok {
			okMP = okMP && core.ErrLeadsToFailure(c)
		}
		r.Check(okMP, "C14.refund", "finishAllocation:refund-on-every-success", p.Pos(refund.Site.Pos()), "every successful close refunds, error aborting; "+d)
		// WritePool zeroed after the refund, never before
		nZ := 0
		for _, db := range DebitsOf(fin, wp) {
			if !db.Zeroed || db.W.Addr == nil || db.W.Addr.X != ssa.Value(allocPrm) {
				continue
			}
			nZ++
			okZ := Before(refund.Site.Instr, db.W.Instr)
			if okZ {
				okZ, _ = MustPass(p, fin, db.W.Instr)
			}
			r.Check(okZ, "C14.refund", fmt.Sprintf("finishAllocation:pool-zeroed-after-refund#%d", nZ), p.Pos(db.W.Instr.Pos()), "alloc.WritePool = 0 after the refund on every success path (no second refund of the same tokens)")
		}
		r.Floor("C14.refund", "zeroing of alloc.WritePool in finishAllocation", nZ, 1)
	}
	// ---- removed
	for _, h := range []*ssa.Function{cancel, finalize} {
		var del *ssa.Call
		for _, c := range methodCalls(h, "DeleteTrieNode") {
			if kc, ok := core.CallArgs(c.Common())[0].(*ssa.Call); ok && core.MethodName(kc.Common()) == "GetKey" {
				del = c
			}
		}
		okD := del != nil
		d := "no DeleteTrieNode(<allocation>.GetKey(…))"
		if okD {
			okD, d = MustPass(p, h, del)
			okD = okD && core.ErrLeadsToFailure(del)
		}
		r.Check(okD, "C14.removed", h.Name()+":allocation-deleted", p.Pos(h.Pos()), "a closed allocation leaves the state, so it cannot be closed, paid or locked again; "+d)
	}
	// finalize must go through the guarded internal function
	fi := findCallsTo(finalize, finalizeI)
	okFI := len(fi) == 1 && core.ErrLeadsToFailure(fi[0])
	if okFI {
		okFI, _ = MustPass(p, finalize, fi[0])
	}
	r.Check(okFI, "C14.removed", "finalizeAllocation:through-guarded-internal", p.Pos(finalize.Pos()), "finalizeAllocation closes only through finalizeAllocationInternal, error aborting")
	// ---- lock guard
	nC := 0
	for _, cr := range CreditsOf(wpl, wp) {
		nC++
		b := cr.W.Instr.Block()
		okF, okC := false, false
		for _, f := range core.FactsAt(b) {
			v, taken := f.Cond, f.Taken
			for {
				if u, ok := v.(*ssa.UnOp); ok && u.Op == token.NOT {
					v, taken = u.X, !taken
					continue
				}
				break
			}
			if taken {
				continue
			}
			_, path := core.BaseObject(v)
			if path == ".Finalized" {
				okF = true
			}
			if path == ".Canceled" {
				okC = true
			}
		}
		r.Check(okF && okC, "C14.lock-guard", fmt.Sprintf("writePoolLock:credit#%d", nC), p.Pos(cr.W.Instr.Pos()), "tokens are locked only into an allocation that is neither finalized nor cancelled")
	}
	r.Floor("C14.lock-guard", "WritePool credits in writePoolLock", nC, 1)
}
