package props

import (
	"go/constant"
	"go/types"
	"strings"

	"zv/core"
)

const pkgEvent = "0chain.net/smartcontract/dbs/event"

var tagNamesCache map[int64]string

// tagNames maps event tag constant values to their names (event.Tag…).
func tagNames(p *core.Prog) map[int64]string {
	if tagNamesCache != nil {
		return tagNamesCache
	}
	out := map[int64]string{}
	pk := p.Pkgs[pkgEvent]
	if pk != nil {
		for _, n := range pk.Types.Scope().Names() {
			if !strings.HasPrefix(n, "Tag") {
				continue
			}
			c, ok := pk.Types.Scope().Lookup(n).(*types.Const)
			if !ok || core.NamedName(c.Type()) != pkgEvent+".EventTag" {
				continue
			}
			if v, ok := constant.Int64Val(c.Val()); ok {
				if _, dup := out[v]; !dup {
					out[v] = n
				}
			}
		}
	}
	tagNamesCache = out
	return out
}
