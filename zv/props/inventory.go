package props

import (
	"fmt"

	"zv/core"
)

// Inventory prints the contract entry-point table.
func Inventory(p *core.Prog) {
	h := BuildHandlers(p)
	for _, k := range h.Keys() {
		for _, f := range h[k] {
			fmt.Printf("%-45s %s\n", k, f.String())
		}
	}
	fmt.Println("handlers:", len(h))
}

// InventoryTransfers prints every AddTransfer site with resolved components.
func InventoryTransfers(p *core.Prog) {
	for _, ts := range TransferSites(p.ModFuncs()) {
		fmt.Printf("%s  in %s\n   from=%s\n   to=%s\n   amt=%s\n", p.Pos(ts.Site.Pos()), ts.Fn.String(), describe(ts.From), describe(ts.To), describe(ts.Amount))
	}
}
