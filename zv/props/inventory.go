package props

import (
	"fmt"

	"zv/core"
)

// Inventory prints the contract entry-point table.
func Inventory(p *core.Prog) {
	h := BuildHandlers(p)
	for _, k := range h.Keys() {
		for _, f := range h[k] {
			fmt.Printf("%-45s %s\n", k, f.String())
		}
	}
	fmt.Println("handlers:", len(h))
}
