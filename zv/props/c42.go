package props

import (
	"fmt"
	"go/token"
	"strings"

	"golang.org/x/tools/go/ssa"

	"zv/core"
)

func init() { register("C42", "other", c42) }

// elemField decomposes `base[idx].f1.f2` (loads included) into the indexed base, the
// index value, the element value (base[idx] loaded) and the dotted field path.
func elemField(v ssa.Value) (base, idx, elem ssa.Value, path string) {
	for {
		switch x := v.(type) {
		case *ssa.UnOp:
			if x.Op != token.MUL {
				return nil, nil, nil, ""
			}
			if ia, ok := x.X.(*ssa.IndexAddr); ok {
				b := ia.X
				if ld, ok := b.(*ssa.UnOp); ok && ld.Op == token.MUL {
					b = ld.X // captured slice variable
				}
				return b, ia.Index, x, path
			}
			v = x.X
		case *ssa.FieldAddr:
			if f := core.FieldOf(x); f != nil {
				path = "." + f.Name() + path
			}
			v = x.X
		case *ssa.Field:
			if f := core.FieldOf(x); f != nil {
				path = "." + f.Name() + path
			}
			v = x.X
		default:
			return nil, nil, nil, ""
		}
	}
}

type cmpKey struct {
	Path string
	Op   token.Token
}

// lexComparator recognises `func(i, j) bool` comparators of the lexicographic form
//
//	if k1(i) == k1(j) { if k2(i) == k2(j) {…}; return k2(i) op k2(j) }; return k1(i) op k1(j)
//
// and returns the ordered key list; ok=false when a return is not a comparison of the
// same field path of element i (left) and element j (right), or when a return is not
// guarded by equality of all earlier keys.
func lexComparator(cl *ssa.Function) (keys []cmpKey, ok bool, why string) {
	if len(cl.Params) != 2 {
		return nil, false, "not a two-index comparator"
	}
	pi, pj := cl.Params[0], cl.Params[1]
	side := func(v ssa.Value) (string, int) {
		_, idx, _, path := elemField(v)
		switch idx {
		case ssa.Value(pi):
			return path, 0
		case ssa.Value(pj):
			return path, 1
		}
		return path, -1
	}
	type retInfo struct {
		key cmpKey
		eqs []string
	}
	var infos []retInfo
	for _, ret := range core.Returns(cl) {
		bo, isB := ret.Results[0].(*ssa.BinOp)
		if !isB {
			return nil, false, "comparator returns a non-comparison"
		}
		lp, ls := side(bo.X)
		rp, rs := side(bo.Y)
		op := bo.Op
		if ls == 1 && rs == 0 {
			ls, rs = 0, 1
			op = map[token.Token]token.Token{token.LSS: token.GTR, token.GTR: token.LSS, token.LEQ: token.GEQ, token.GEQ: token.LEQ}[op]
		}
		if lp != rp || lp == "" || ls != 0 || rs != 1 {
			return nil, false, "comparison is not key(i) op key(j) on one field path"
		}
		if op != token.LSS && op != token.GTR {
			return nil, false, "non-strict or unknown comparison operator " + bo.Op.String()
		}
		info := retInfo{key: cmpKey{lp, op}}
		for _, c := range CmpFacts(ret.Block()) {
			if c.Op != token.EQL {
				continue
			}
			xp, xs := side(c.X)
			yp, ys := side(c.Y)
			if xp == yp && xp != "" && xs+ys == 1 && xs >= 0 && ys >= 0 {
				info.eqs = append(info.eqs, xp)
			}
		}
		infos = append(infos, info)
	}
	// order returns by the number of equalities guarding them
	for n := 0; n < len(infos); n++ {
		var found *retInfo
		for i := range infos {
			if len(infos[i].eqs) == n {
				if found != nil {
					return nil, false, "two returns under the same tie conditions"
				}
				found = &infos[i]
			}
		}
		if found == nil {
			return nil, false, "tie-break chain has a gap"
		}
		for i, k := range keys {
			if i >= len(found.eqs) || !contains(found.eqs, k.Path) {
				return nil, false, "return comparing " + found.key.Path + " is not guarded by equality of " + k.Path
			}
		}
		keys = append(keys, found.key)
	}
	return keys, true, ""
}

func contains(xs []string, s string) bool {
	for _, x := range xs {
		if x == s {
			return true
		}
	}
	return false
}

// C42 Replicating sharders are chosen deterministically.
func c42(r *core.Report, p *core.Prog, thorough bool) {
	r.Explain = "Decided: the score of a node depends only on its id bytes and the block hash; the scored list is sorted by a strict lexicographic comparator (Score descending, then the pool position SetIndex, which C35 shows is a numbering by unique node key), so the order is a function of the set; IsInTop / IsInTopWithNodes take the cut-off score at position topN-1 under topN <= len, and admit a node (return true / append / inTop) only on the path where that element's score is not below the cut-off, comparing identity on the same element; because the list is descending at least topN elements pass; the chain entry points return `every sharder` when NumReplicators() <= 0 and otherwise score the round's magic-block sharders with the block hash. Not decided: the XOR score's distribution, uniqueness of node keys."
	r.Rule("C42.score-inputs", "ScoreHash: Score.Score = HashScorer.Score(node.idBytes, hash) and Score.Node = that node, for every node of CopyNodes(); no other input")
	r.Rule("C42.total-order", "ScoreHash sorts with keys [Score desc, Node.SetIndex] (strict, each later key guarded by equality of the earlier ones)")
	r.Rule("C42.top", "IsInTop/IsInTopWithNodes: cut-off = nodeScores[topN-1].Score under topN <= len(nodeScores); membership effects are dominated by !(elem.Score < cut-off) and identity is tested on the same element")
	r.Rule("C42.entry", "IsBlockSharder/IsBlockSharderFromHash/CanShardBlockWithReplicators: NumReplicators() <= 0 → true (all sharders); otherwise ScoreHashString(GetMagicBlock(round).Sharders, hash) and topN = NumReplicators()")
	sh := p.Func("(*" + pkgNode + ".HashPoolScorer).ScoreHash")
	if sh == nil {
		r.Unresolved("C42.score-inputs", "HashPoolScorer.ScoreHash")
		return
	}
	// ---- score inputs
	sc := methodCalls(sh, "Score")
	if r.Check(len(sc) == 1, "C42.score-inputs", "ScoreHash:score-call", p.Pos(sh.Pos()), fmt.Sprintf("%d Score calls", len(sc))) {
		a := core.CallArgs(sc[0].Common())
		_, p0 := core.BaseObject(a[0])
		nd, _ := core.BaseObject(a[0])
		okArgs := strings.HasSuffix(p0, ".idBytes") && core.ParamOf(a[1]) != nil && core.ParamOf(a[1]).Name() == "hash"
		r.Check(okArgs, "C42.score-inputs", "ScoreHash:score-args", p.Pos(sc[0].Pos()), "Score(nd.idBytes, hash)")
		// stored into the same element's Score and Node from the same nd
		okStore, okNode := false, false
		for _, b := range sh.Blocks {
			for _, in := range b.Instrs {
				st, ok := in.(*ssa.Store)
				if !ok {
					continue
				}
				fa, ok := st.Addr.(*ssa.FieldAddr)
				if !ok {
					continue
				}
				f := core.FieldOf(fa)
				if f == nil || core.NamedName(fa.X.Type()) != pkgNode+".Score" {
					continue
				}
				switch f.Name() {
				case "Score":
					okStore = st.Val == ssa.Value(sc[0])
				case "Node":
					sv, _ := core.BaseObject(st.Val)
					okNode = sv == nd
				}
			}
		}
		r.Check(okStore && okNode, "C42.score-inputs", "ScoreHash:pairs-node-with-own-score", p.Pos(sc[0].Pos()), "the element holds the node whose id was scored")
		cp := methodCalls(sh, "CopyNodes")
		r.Check(len(cp) == 1 && core.ParamOf(core.Receiver(cp[0].Common())) != nil, "C42.score-inputs", "ScoreHash:all-nodes", p.Pos(sh.Pos()), "iterates np.CopyNodes()")
	}
	// ---- comparator
	var sorts []*ssa.Call
	for _, cs := range core.CallsIn(sh, false, func(c *ssa.CallCommon) bool {
		n := core.CalleeName(c)
		return n == "sort.Slice" || n == "sort.SliceStable"
	}) {
		sorts = append(sorts, cs.Instr.(*ssa.Call))
	}
	if r.Check(len(sorts) == 1, "C42.total-order", "ScoreHash:sort", p.Pos(sh.Pos()), fmt.Sprintf("%d sort calls", len(sorts))) {
		cl := sortClosure(sorts[0])
		if cl == nil {
			r.Fail("C42.total-order", "ScoreHash:comparator", p.Pos(sorts[0].Pos()), "comparator is not a literal closure")
		} else {
			keys, ok, why := lexComparator(cl)
			d := why
			if ok {
				var ks []string
				for _, k := range keys {
					ks = append(ks, k.Path+" "+k.Op.String())
				}
				d = "keys: " + strings.Join(ks, ", ")
			}
			if r.Check(ok, "C42.total-order", "ScoreHash:comparator-lexicographic", p.Pos(cl.Pos()), d) {
				r.Check(len(keys) >= 1 && keys[0] == cmpKey{".Score", token.GTR}, "C42.total-order", "ScoreHash:primary-score-descending", p.Pos(cl.Pos()), d+" (the cut-off walk relies on descending scores)")
				last := keys[len(keys)-1]
				r.Check(len(keys) >= 2 && (last.Path == ".Node.SetIndex" || last.Path == ".Node.ID"), "C42.total-order", "ScoreHash:tie-break-unique", p.Pos(cl.Pos()), d+" (ties in score must be broken by a per-node unique key, else the order depends on insertion order)")
			}
		}
	}
	// ---- top
	for _, name := range []string{"IsInTop", "IsInTopWithNodes"} {
		fn := p.Func("(*" + pkgNode + ".Node)." + name)
		if fn == nil {
			r.Unresolved("C42.top", name)
			continue
		}
		recv, scores, topN := fn.Params[0], fn.Params[1], fn.Params[2]
		isCut := func(v ssa.Value) bool {
			base, idx, _, path := elemField(v)
			if base != ssa.Value(scores) || path != ".Score" {
				return false
			}
			bo, ok := idx.(*ssa.BinOp)
			if !ok || bo.Op != token.SUB || bo.X != ssa.Value(topN) {
				return false
			}
			c, ok := core.ConstInt(bo.Y)
			if !ok || c != 1 {
				return false
			}
			// computed under topN <= len(scores)
			in, _ := v.(ssa.Instruction)
			for _, f := range CmpFacts(in.Block()) {
				if f.Op == token.LEQ && f.X == ssa.Value(topN) && isLenOf(f.Y, scores) {
					return true
				}
				if f.Op == token.GEQ && f.Y == ssa.Value(topN) && isLenOf(f.X, scores) {
					return true
				}
			}
			return false
		}
		// membership effects
		type effect struct {
			in   ssa.Instruction
			elem ssa.Value // element the effect is about (nil = derive from identity fact)
			what string
		}
		var effs []effect
		for _, b := range fn.Blocks {
			for _, in := range b.Instrs {
				switch x := in.(type) {
				case *ssa.Return:
					if c, ok := x.Results[0].(*ssa.Const); ok && c.Value != nil && c.Value.String() == "true" {
						effs = append(effs, effect{in, nil, "return true"})
					}
				case *ssa.Call:
					if core.CalleeName(x.Common()) == "builtin.append" {
						for _, e := range appendElems(x) {
							_, _, el, path := elemField(e)
							if path == ".Node" {
								effs = append(effs, effect{in, el, "append elem.Node"})
							} else {
								effs = append(effs, effect{in, nil, "append of a value that is not elem.Node"})
							}
						}
					}
				case *ssa.Phi:
					if x.Comment == "inTop" {
						for i, e := range x.Edges {
							if c, ok := e.(*ssa.Const); ok && c.Value != nil && c.Value.String() == "true" {
								pb := x.Block().Preds[i]
								effs = append(effs, effect{pb.Instrs[len(pb.Instrs)-1], nil, "inTop = true"})
							}
						}
					}
				}
			}
		}
		min := 1
		if name == "IsInTopWithNodes" {
			min = 2
		}
		r.Floor("C42.top", name+" membership effects", len(effs), min)
		for i, e := range effs {
			b := e.in.Block()
			elem := e.elem
			okID := elem != nil
			var aboveCut bool
			for _, f := range CmpFacts(b) {
				if f.Op == token.EQL {
					// identity: elem.Node == n
					var other ssa.Value
					_, _, el, path := elemField(f.X)
					other = f.Y
					if el == nil {
						_, _, el, path = elemField(f.Y)
						other = f.X
					}
					if el != nil && path == ".Node" && other == ssa.Value(recv) && (elem == nil || elem == el) {
						if elem == nil {
							elem = el
						}
						okID = true
					}
				}
			}
			for _, f := range CmpFacts(b) {
				_, _, el, path := elemField(f.X)
				if f.Op == token.GEQ && el != nil && el == elem && path == ".Score" && isCut(f.Y) {
					aboveCut = true
				}
				_, _, el2, path2 := elemField(f.Y)
				if f.Op == token.LEQ && el2 != nil && el2 == elem && path2 == ".Score" && isCut(f.X) {
					aboveCut = true
				}
			}
			r.Check(okID && aboveCut, "C42.top", fmt.Sprintf("%s:effect#%d:%s", name, i, e.what), p.Pos(e.in.Pos()), fmt.Sprintf("element identified=%v, dominated by elem.Score >= nodeScores[topN-1].Score (under topN <= len)=%v", okID, aboveCut))
		}
	}
	// ---- entry points
	for _, name := range []string{"IsBlockSharder", "IsBlockSharderFromHash", "CanShardBlockWithReplicators"} {
		fn := p.Func("(*" + pkgChain + ".Chain)." + name)
		if fn == nil {
			r.Unresolved("C42.entry", name)
			continue
		}
		// every sharder when replication is disabled
		okAll := false
		for _, ret := range core.Returns(fn) {
			if c, ok := ret.Results[0].(*ssa.Const); ok && c.Value != nil && c.Value.String() == "true" {
				okAll = false
				for _, f := range CmpFacts(ret.Block()) {
					if f.Op == token.LEQ && f.YD == "0" && strings.HasSuffix(f.XD, "NumReplicators()") {
						okAll = true
					}
				}
				if !okAll {
					break
				}
			}
		}
		r.Check(okAll, "C42.entry", name+":disabled-means-all", p.Pos(fn.Pos()), "constant true only under NumReplicators() <= 0")
		ss := methodCalls(fn, "ScoreHashString")
		var top []*ssa.Call
		top = append(top, methodCalls(fn, "IsInTop")...)
		top = append(top, methodCalls(fn, "IsInTopWithNodes")...)
		if !r.Check(len(ss) == 1 && len(top) == 1, "C42.entry", name+":calls", p.Pos(fn.Pos()), fmt.Sprintf("ScoreHashString=%d IsInTop*=%d", len(ss), len(top))) {
			continue
		}
		sa := core.CallArgs(ss[0].Common())
		pool, pp := core.BaseObject(sa[0])
		mb, _ := core.CallOf(pool)
		okPool := pp == ".Sharders" && mb != nil && core.MethodName(mb.Common()) == "GetMagicBlock"
		hobj, hp := core.BaseObject(sa[1])
		okHash := (core.ParamOf(hobj) != nil && hp == "" && strings.Contains(strings.ToLower(core.ParamOf(hobj).Name()), "hash")) || strings.HasSuffix(hp, ".Hash")
		r.Check(okPool && okHash, "C42.entry", name+":scores-round-sharders-with-block-hash", p.Pos(ss[0].Pos()), "ScoreHashString(GetMagicBlock(round).Sharders, hash)")
		ta := core.CallArgs(top[0].Common())
		nr, _ := core.CallOf(ta[1])
		r.Check(ta[0] == ssa.Value(ss[0]) && nr != nil && core.MethodName(nr.Common()) == "NumReplicators" && core.ParamOf(core.Receiver(top[0].Common())) != nil, "C42.entry", name+":top-args", p.Pos(top[0].Pos()), "sharder.IsInTop*(scores, NumReplicators())")
	}
}

// isLenOf: v is len(x).
func isLenOf(v ssa.Value, x ssa.Value) bool {
	c, ok := v.(*ssa.Call)
	if !ok || core.CalleeName(c.Common()) != "builtin.len" || len(c.Call.Args) != 1 {
		return false
	}
	return c.Call.Args[0] == x
}
