package props

import (
	"fmt"
	"strings"

	"golang.org/x/tools/go/ssa"

	"zv/core"
)

func init() { register("C26", "other", c26) }

const (
	pkgBlockDB    = "0chain.net/sharder/blockdb"
	pkgBlockStore = "0chain.net/sharder/blockstore"
)

// ioErrCall: calls whose error result must not be dropped on a storage write path.
func ioErrCall(c *ssa.CallCommon) bool {
	switch core.MethodName(c) {
	case "Write", "WriteString", "WriteTo", "WriteAt", "Flush", "Sync", "Close", "Encode", "Seek", "Truncate", "Compress", "WriteMsgpack", "SetOffset", "MkdirAll", "Create", "OpenFile", "Remove":
		sig := c.Signature()
		return sig != nil && sig.Results().Len() > 0 && core.IsErrorType(sig.Results().At(sig.Results().Len()-1).Type())
	}
	return false
}

// C26 Stored blocks and block databases read back exactly.
func c26(r *core.Report, p *core.Prog, thorough bool) {
	r.Explain = "Decided (termination, error and pipeline clauses): no loop of the block database / block store can repeat an iteration with unchanged state (a lookup of an absent key returns); every success exit of the block writer has created the file, encoded the block, closed the compressor and flushed the buffer, in that order, with every error failing the write (a write can never report success without writing); no error of a write/flush/sync/close/encode call is dropped on the write paths (deferred Close of the underlying file after an explicit flush is the accepted idiom); writer and reader apply inverse pipelines. Not decided: byte-level round trip, crash points (no static model of the file system)."
	r.Rule("C26.terminates", "no stuttering iteration (pure path around a loop that leaves every loop-carried value unchanged) in sharder/blockdb, sharder/blockstore")
	r.Rule("C26.write-path", "BlockStore.writeToDisk: os.Create → WriteMsgpack → compressor Close → buffer Flush on every success exit, in order, each error failing the write")
	r.Rule("C26.errors", "no dropped error of Write/Flush/Sync/Close/Encode/Seek/… in the write functions of blockdb and blockstore")
	r.Rule("C26.full-read", "a function of the block database that fills a buffer with ONE Read on an io.Reader parameter is only ever handed a raw *os.File (or an in-memory bytes reader), whose Read fills the buffer unless the file ends; a buffered or decompressing reader may return less and the index would be rejected or truncated")
	c26FullRead(r, p)
	r.Rule("C26.pipeline", "writeToDisk composes msgpack∘zlib over the file; readFromDisk composes zlib∘msgpack over the same path function")
	var fns []*ssa.Function
	for _, pk := range []string{pkgBlockDB, pkgBlockStore} {
		fns = append(fns, p.FuncsIn(pk)...)
	}
	r.Floor("C26.terminates", "functions", len(fns), 40)
	nLoops := 0
	for _, fn := range fns {
		ls := core.Loops(fn)
		nLoops += len(ls)
		sts := core.StutterLoops(fn)
		stut := map[*ssa.BasicBlock]core.Stutter{}
		for _, s := range sts {
			stut[s.Loop.Header] = s
		}
		for i, l := range ls {
			key := fmt.Sprintf("loop:%s:%d", core.EnclosingNamed(fn).String(), i)
			if s, bad := stut[l.Header]; bad {
				r.Fail("C26.terminates", key, posOf(p, l.Header.Instrs[0]), "an iteration can leave every loop variable unchanged and repeat forever: "+p.PathString(append(s.Path, l.Header))+" (Go's `break` inside `switch` leaves the switch, not the loop)")
			} else {
				r.Pass("C26.terminates", key, posOf(p, l.Header.Instrs[0]), "every pure cycle changes a loop-carried value")
			}
		}
	}
	r.Floor("C26.terminates", "loops", nLoops, 10)
	// ---- write path
	wd := p.Func("(*" + pkgBlockStore + ".BlockStore).writeToDisk")
	rd := p.Func("(*" + pkgBlockStore + ".BlockStore).readFromDisk")
	if wd == nil || rd == nil {
		r.Unresolved("C26.write-path", "BlockStore.writeToDisk/readFromDisk")
	} else {
		steps := []struct{ name, callee string }{
			{"create", "os.Create"}, {"encode", "0chain.net/core/datastore.WriteMsgpack"},
			{"close-compressor", "(*compress/zlib.Writer).Close"}, {"flush", "(*bufio.Writer).Flush"},
		}
		var prev *ssa.Call
		for _, st := range steps {
			cs := findCalls(wd, st.callee)
			if !r.Check(len(cs) == 1, "C26.write-path", "writeToDisk:"+st.name, p.Pos(wd.Pos()), fmt.Sprintf("%d calls of %s", len(cs), st.callee)) {
				prev = nil
				continue
			}
			c := cs[0]
			ok, w := MustPass(p, wd, c)
			// Flush is returned directly: its call is the return value
			r.Check(ok, "C26.write-path", "writeToDisk:must-"+st.name, p.Pos(c.Pos()), "on every success exit; "+w)
			r.Check(core.ErrLeadsToFailure(c), "C26.write-path", "writeToDisk:err-"+st.name, p.Pos(c.Pos()), "its error fails the write")
			if prev != nil {
				r.Check(Before(prev, c), "C26.write-path", "writeToDisk:order-"+st.name, p.Pos(c.Pos()), "steps in order")
			}
			prev = c
		}
		// pipeline
		zw := findCalls(wd, "compress/zlib.NewWriterLevel")
		bw := findCalls(wd, "bufio.NewWriterSize")
		okW := len(zw) == 1 && len(bw) == 1
		if okW {
			okW = strings.Contains(strings.Join(core.RootDescs(core.Slice(zw[0].Call.Args[0])), ","), "bufio.NewWriterSize") &&
				strings.Contains(strings.Join(core.RootDescs(core.Slice(bw[0].Call.Args[0])), ","), "os.Create")
		}
		r.Check(okW, "C26.pipeline", "writeToDisk:msgpack→zlib→bufio→file", p.Pos(wd.Pos()), "compressor writes into the buffered file writer")
		zr := findCalls(rd, "compress/zlib.NewReader")
		rm := findCalls(rd, "0chain.net/core/datastore.ReadMsgpack")
		okR := len(zr) == 1 && len(rm) == 1
		if okR {
			okR = strings.Contains(strings.Join(core.RootDescs(core.Slice(zr[0].Call.Args[0])), ","), "os.Open") &&
				strings.Contains(strings.Join(core.RootDescs(core.Slice(rm[0].Call.Args[0])), ","), "zlib.NewReader") &&
				core.ErrLeadsToFailure(rm[0]) && core.ErrLeadsToFailure(zr[0])
		}
		r.Check(okR, "C26.pipeline", "readFromDisk:file→zlib→msgpack", p.Pos(rd.Pos()), "inverse pipeline, decode errors returned")
		pw := findCalls(wd, pkgBlockStore+".getBlockFilePath")
		pr := findCalls(rd, pkgBlockStore+".getBlockFilePath")
		r.Check(len(pw) == 1 && len(pr) == 1 && describe(pw[0].Call.Args[0]) == "hash" && describe(pr[0].Call.Args[0]) == "hash", "C26.pipeline", "same-path-function", p.Pos(rd.Pos()), "writer and reader derive the file path from the hash with the same function")
	}
	// ---- dropped errors on write functions
	writeFns := map[string]bool{}
	for _, n := range []string{
		"(*" + pkgBlockDB + ".BlockDB).WriteData", "(*" + pkgBlockDB + ".BlockDB).Save", "(*" + pkgBlockDB + ".BlockDB).saveHeader",
		"(*" + pkgBlockDB + ".BlockDB).writeIndex", "(*" + pkgBlockDB + ".BlockDB).Create", "(*" + pkgBlockDB + ".BlockDB).Close",
		"(*" + pkgBlockDB + ".mapIndex).Encode", "(*" + pkgBlockDB + ".fixedKeyArrayIndex).Encode",
		"(*" + pkgBlockStore + ".BlockStore).writeToDisk", "(*" + pkgBlockStore + ".BlockStore).write", "(*" + pkgBlockStore + ".BlockStore).Write",
	} {
		writeFns[n] = true
	}
	nIO := 0
	for _, fn := range fns {
		if !writeFns[core.EnclosingNamed(fn).String()] {
			continue
		}
		for _, cs := range core.CallsIn(fn, false, ioErrCall) {
			nIO++
			key := "io:" + core.EnclosingNamed(fn).String() + ":" + core.MethodName(cs.Common())
			if _, isDefer := cs.Instr.(*ssa.Defer); isDefer {
				if core.MethodName(cs.Common()) == "Close" {
					r.Pass("C26.errors", key+":deferred-close", p.Pos(cs.Pos()), "deferred Close of the underlying file (data already flushed/returned explicitly): accepted idiom")
					continue
				}
				r.Fail("C26.errors", key+":deferred", p.Pos(cs.Pos()), "error of a deferred write-path call cannot be observed")
				continue
			}
			call := cs.Instr.(*ssa.Call)
			ev := core.ErrResult(call)
			used := false
			if ev != nil {
				for _, ref := range *ev.Referrers() {
					if _, ok := ref.(*ssa.DebugRef); !ok {
						used = true
					}
				}
			}
			r.Check(used, "C26.errors", key, p.Pos(cs.Pos()), "error result must be used (returned or tested)")
		}
	}
	r.Floor("C26.errors", "io calls on write paths", nIO, 12)
}

// c26FullRead: single-Read decoders get raw files only.
func c26FullRead(r *core.Report, p *core.Prog) {
	fns := p.FuncsIn(pkgBlockDB)
	// functions with a direct Read on an io.Reader-typed parameter
	type site struct {
		fn  *ssa.Function
		prm int
	}
	var raw []site
	for _, fn := range fns {
		if fn.Blocks == nil {
			continue
		}
		for _, b := range fn.Blocks {
			for _, in := range b.Instrs {
				c, ok := in.(*ssa.Call)
				if !ok || !c.Common().IsInvoke() || c.Common().Method.Name() != "Read" {
					continue
				}
				for i, prm := range fn.Params {
					if c.Common().Value == ssa.Value(prm) {
						raw = append(raw, site{fn, i})
					}
				}
			}
		}
	}
	okType := func(t string) bool {
		return t == "*os.File" || t == "*bytes.Buffer" || t == "*bytes.Reader" || t == "*strings.Reader"
	}
	n := 0
	seen := map[site]bool{}
	var check func(s site, depth int)
	check = func(s site, depth int) {
		if seen[s] || depth > 4 {
			return
		}
		seen[s] = true
		for _, caller := range p.ModFuncs() {
			if caller.Blocks == nil {
				continue
			}
			// the decoders are unexported machinery of the block database: callers live there
			if caller.Pkg == nil || caller.Pkg.Pkg.Path() != pkgBlockDB {
				continue
			}
			for _, b := range caller.Blocks {
				for _, in := range b.Instrs {
					c, ok := in.(*ssa.Call)
					if !ok {
						continue
					}
					var arg ssa.Value
					if c.Common().StaticCallee() == s.fn && s.prm < len(c.Call.Args) {
						arg = c.Call.Args[s.prm]
					} else if c.Common().IsInvoke() && s.fn.Signature.Recv() != nil && c.Common().Method.Name() == s.fn.Name() && s.prm >= 1 && s.prm-1 < len(c.Call.Args) {
						// interface dispatch to a decoder with this name (Index.Decode)
						arg = c.Call.Args[s.prm-1]
					}
					if arg == nil {
						continue
					}
					n++
					key := fmt.Sprintf("%s->%s", core.EnclosingNamed(caller).Name(), s.fn.Name())
					switch x := arg.(type) {
					case *ssa.MakeInterface:
						t := x.X.Type().String()
						r.Check(okType(t), "C26.full-read", key, p.Pos(c.Pos()), "the reader handed to a single-Read decoder is "+t)
					case *ssa.Parameter:
						// passed through: follow the caller's callers
						for i, prm := range caller.Params {
							if prm == x {
								check(site{caller, i}, depth+1)
							}
						}
						r.Pass("C26.full-read", key+":passes-through", p.Pos(c.Pos()), "forwards its own reader parameter")
					default:
						if okType(arg.Type().String()) {
							r.Pass("C26.full-read", key, p.Pos(c.Pos()), "concrete "+arg.Type().String())
						} else {
							r.Fail("C26.full-read", key, p.Pos(c.Pos()), "cannot tell what reader reaches the single-Read decoder: "+describe(arg))
						}
					}
				}
			}
		}
	}
	for _, s := range raw {
		check(s, 0)
	}
	r.Floor("C26.full-read", "call sites feeding single-Read decoders", n, 1)
}
