package props

import (
	"fmt"
	"go/token"
	"go/types"
	"sort"
	"strings"

	"golang.org/x/tools/go/ssa"

	"zv/core"
)

// ---------------------------------------------------------------------------------
// C31 ingress typestate: forward flow of received blocks / tickets / notarizations
// ---------------------------------------------------------------------------------

type tKind int

const (
	tkMsg     tKind = iota + 1 // *miner.BlockMessage
	tkBlock                    // *block.Block received from the network (own ticket list untrusted)
	tkNotar                    // *miner.Notarization received
	tkTickets                  // received ticket(s): []*VerificationTicket, *VerificationTicket, *BlockVerificationTicket(s)
)

type tFlavour int

const (
	flPlain tFlavour = iota // tickets that arrived by themselves
	flOwn                   // the ticket list a received block carries for itself
	flPrev                  // the previous block's tickets a received block carries
)

type tval struct {
	kind     tKind
	class    int // source class: sanitising one member sanitises the class
	fl       tFlavour
	distinct bool // known free of repeated verifiers (single ticket, UnknownTickets output)
	cell     bool // the value is the address of a variable holding the tainted value
	ownOK    bool // block: the tickets it carries for itself were verified before it got here
}

type c31Seed struct {
	fn  *ssa.Function
	val ssa.Value
	tv  tval
}

type c31Eng struct {
	r   *core.Report
	p   *core.Prog
	ix  *CallIndex
	fns struct {
		verifyTickets, verifyNotar, verifyBlockNotar *ssa.Function
		setNotarized, addTicket, mergeTickets        *ssa.Function
		roundAddTickets, unknownTickets              *ssa.Function
	}
	done      map[string]bool // (fn, value-name, kind, class-flavour) processed
	nextClass int
	srcOf     map[int]string // class -> source description
	reported  map[string]bool
	sinksSeen int
	flows     int
	summaries map[string]int // ownTicketVerifier cache: 0 unknown, 1 yes, -1 no
	chanRecv  map[string][]c31Recv
	depthCap  int
	trace     []string
}

type c31Recv struct {
	fn  *ssa.Function
	val ssa.Value
}

func c31Ingress(r *core.Report, p *core.Prog) {
	e := &c31Eng{r: r, p: p, ix: BuildCallIndex(p), done: map[string]bool{}, srcOf: map[int]string{}, reported: map[string]bool{}, summaries: map[string]int{}, depthCap: 14}
	ch := "(*" + pkgChain + ".Chain)."
	blk := "(*" + pkgBlock + ".Block)."
	e.fns.verifyTickets = p.Func(ch + "VerifyTickets")
	e.fns.verifyNotar = p.Func(ch + "VerifyNotarization")
	e.fns.verifyBlockNotar = p.Func(ch + "VerifyBlockNotarization")
	e.fns.setNotarized = p.Func(blk + "SetBlockNotarized")
	e.fns.addTicket = p.Func(blk + "AddVerificationTicket")
	e.fns.mergeTickets = p.Func(blk + "MergeVerificationTickets")
	e.fns.unknownTickets = p.Func(blk + "UnknownTickets")
	e.fns.roundAddTickets = p.Func("(*" + pkgMiner + ".Round).AddVerificationTickets")
	if e.fns.verifyTickets == nil || e.fns.verifyNotar == nil || e.fns.verifyBlockNotar == nil || e.fns.setNotarized == nil ||
		e.fns.addTicket == nil || e.fns.mergeTickets == nil || e.fns.unknownTickets == nil || e.fns.roundAddTickets == nil {
		r.Unresolved("C31.ingress", "verification / ticket-admitting functions")
		return
	}
	e.indexChannels()
	// sources: loads of BlockMessage.{Block,Notarization,BlockVerificationTicket} in package miner
	var seeds []c31Seed
	for _, fn := range p.FuncsIn(pkgMiner) {
		if isTooling(p, fn) {
			continue
		}
		for _, b := range fn.Blocks {
			for _, in := range b.Instrs {
				fa, ok := in.(*ssa.FieldAddr)
				if !ok || core.FieldOf(fa) == nil || ownerName(fa.X.Type()) != "BlockMessage" {
					continue
				}
				// only loads (a store into the field builds a message: not an ingress)
				isLoad := false
				for _, ref := range *fa.Referrers() {
					if ld, ok := ref.(*ssa.UnOp); ok && ld.Op == token.MUL {
						isLoad = true
						var tv tval
						switch core.FieldOf(fa).Name() {
						case "Block":
							tv = tval{kind: tkBlock}
						case "Notarization":
							tv = tval{kind: tkNotar}
						case "BlockVerificationTicket":
							tv = tval{kind: tkTickets, distinct: true}
						default:
							continue
						}
						e.nextClass++
						tv.class = e.nextClass
						e.srcOf[tv.class] = fmt.Sprintf("BlockMessage.%s read in %s (%s)", core.FieldOf(fa).Name(), fn.String(), p.Pos(ld.Pos()))
						seeds = append(seeds, c31Seed{fn, ld, tv})
					}
				}
				_ = isLoad
			}
		}
	}
	r.Floor("C31.ingress", "BlockMessage payload reads in package miner (ingress points)", len(seeds), 4)
	sort.Slice(seeds, func(i, j int) bool { return e.srcOf[seeds[i].tv.class] < e.srcOf[seeds[j].tv.class] })
	for _, s := range seeds {
		e.analyze(s.fn, map[ssa.Value]tval{s.val: s.tv}, 0, "")
	}
	r.Info["c31_ingress_sources"] = len(seeds)
	r.Info["c31_interprocedural_flows_followed"] = e.flows
	r.Info["c31_sinks_examined"] = e.sinksSeen
	var srcs []string
	for _, s := range e.srcOf {
		srcs = append(srcs, s)
	}
	sort.Strings(srcs)
	r.Info["c31_sources"] = srcs
	r.Floor("C31.ingress", "ticket-admitting / notarization-deciding calls reached by received data", e.sinksSeen, 3)
}

// ---- channel hand-offs -------------------------------------------------------------

// chanKey names a channel by the struct field it lives in ("Type.field"), looking through
// getters that return the field.
func (e *c31Eng) chanKey(v ssa.Value, depth int) string {
	if depth > 3 {
		return ""
	}
	switch x := v.(type) {
	case *ssa.UnOp:
		if x.Op == token.MUL {
			if fa, ok := x.X.(*ssa.FieldAddr); ok && core.FieldOf(fa) != nil {
				return ownerName(fa.X.Type()) + "." + core.FieldOf(fa).Name()
			}
			if al, ok := x.X.(*ssa.Alloc); ok {
				if sv := singleStoreOf(al); sv != nil {
					return e.chanKey(sv, depth+1)
				}
			}
			if fv, ok := x.X.(*ssa.FreeVar); ok {
				o, _ := resolveFreeVar(fv, fv.Parent())
				if o != nil && o != ssa.Value(fv) {
					return e.chanKey(o, depth+1)
				}
			}
		}
	case *ssa.Call:
		if cal := core.StaticCallee(x.Common()); cal != nil && cal.Blocks != nil {
			for _, ret := range core.Returns(cal) {
				if len(ret.Results) == 1 {
					if k := e.chanKey(ret.Results[0], depth+1); k != "" {
						return k
					}
				}
			}
		}
		// interface getter: resolve by method name to module methods
		if x.Call.IsInvoke() {
			name := x.Call.Method.Name()
			for _, f := range e.p.ModFuncs() {
				if f.Name() == name && f.Signature.Recv() != nil && f.Blocks != nil {
					for _, ret := range core.Returns(f) {
						if len(ret.Results) == 1 {
							if k := e.chanKey(ret.Results[0], depth+1); k != "" {
								return k
							}
						}
					}
				}
			}
		}
	case *ssa.Field:
		if fl := core.FieldOf(x); fl != nil {
			return ownerName(x.X.Type()) + "." + fl.Name()
		}
	}
	return ""
}

func (e *c31Eng) indexChannels() {
	e.chanRecv = map[string][]c31Recv{}
	for _, fn := range e.p.ModFuncs() {
		if fn.Blocks == nil {
			continue
		}
		for _, b := range fn.Blocks {
			for _, in := range b.Instrs {
				switch x := in.(type) {
				case *ssa.UnOp:
					if x.Op == token.ARROW {
						if k := e.chanKey(x.X, 0); k != "" {
							e.chanRecv[k] = append(e.chanRecv[k], c31Recv{fn, x})
						}
					}
				case *ssa.Select:
					ri := 0
					for _, st := range x.States {
						if st.Dir != types.RecvOnly {
							continue
						}
						idx := 2 + ri
						ri++
						k := e.chanKey(st.Chan, 0)
						if k == "" {
							continue
						}
						for _, ref := range *x.Referrers() {
							if ex, ok := ref.(*ssa.Extract); ok && ex.Index == idx {
								e.chanRecv[k] = append(e.chanRecv[k], c31Recv{fn, ex})
							}
						}
					}
				}
			}
		}
	}
}

// ---- per-function analysis ---------------------------------------------------------

type c31Fn struct {
	e   *c31Eng
	fn  *ssa.Function
	T   map[ssa.Value]tval
	via string
	// facts inherited from the caller: <param><path> is a block already notarized
	entryNotarized map[ssa.Value][]string
}

func shortFn(f *ssa.Function) string {
	s := f.String()
	if i := strings.LastIndex(s, "/"); i >= 0 {
		s = s[i+1:]
	}
	return strings.TrimSuffix(s, ")")
}

func isTicketish(t types.Type) bool {
	s := t.String()
	return strings.Contains(s, "VerificationTicket")
}

func isBlockPtr(t types.Type) bool {
	return core.NamedName(derefType(t)) == pkgBlock+".Block" && t != derefType(t)
}

func (e *c31Eng) key(fn *ssa.Function, v ssa.Value, tv tval) string {
	return fmt.Sprintf("%s|%s|%d|%d|%d|%v|%v", fn.String(), v.Name(), tv.kind, tv.class, tv.fl, tv.cell, tv.ownOK)
}

func (e *c31Eng) analyze(fn *ssa.Function, seeds map[ssa.Value]tval, depth int, via string, entry ...map[ssa.Value][]string) {
	if fn == nil || fn.Blocks == nil || depth > e.depthCap {
		return
	}
	fresh := map[ssa.Value]tval{}
	for v, tv := range seeds {
		k := e.key(fn, v, tv)
		if len(entry) > 0 {
			var es []string
			for pv, ps := range entry[0] {
				es = append(es, pv.Name()+fmt.Sprint(ps))
			}
			sort.Strings(es)
			k += strings.Join(es, ",")
		}
		if e.done[k] {
			continue
		}
		e.done[k] = true
		fresh[v] = tv
	}
	if len(fresh) == 0 {
		return
	}
	a := &c31Fn{e: e, fn: fn, T: map[ssa.Value]tval{}, via: via + " → " + shortFn(fn)}
	if len(entry) > 0 {
		a.entryNotarized = entry[0]
	}
	for v, tv := range fresh {
		a.T[v] = tv
	}
	a.propagate()
	a.uses(depth)
}

// propagate computes the tainted values of the function from its seeds.
func (a *c31Fn) propagate() {
	work := make([]ssa.Value, 0, len(a.T))
	for v := range a.T {
		work = append(work, v)
	}
	sort.Slice(work, func(i, j int) bool { return work[i].Name() < work[j].Name() })
	add := func(v ssa.Value, tv tval) {
		if old, ok := a.T[v]; ok {
			// keep the weaker knowledge
			if old.distinct && !tv.distinct {
				old.distinct = false
				a.T[v] = old
				work = append(work, v)
			}
			return
		}
		a.T[v] = tv
		work = append(work, v)
	}
	for len(work) > 0 {
		v := work[0]
		work = work[1:]
		tv := a.T[v]
		refs := v.Referrers()
		if refs == nil {
			continue
		}
		for _, ref := range *refs {
			switch x := ref.(type) {
			case *ssa.Phi:
				add(x, tv)
			case *ssa.Store:
				if x.Val == v && !tv.cell {
					switch ad := x.Addr.(type) {
					case *ssa.Alloc:
						c := tv
						c.cell = true
						add(ad, c)
					case *ssa.IndexAddr:
						// element of a local array (slice literal)
						if al, ok := ad.X.(*ssa.Alloc); ok && tv.kind == tkTickets {
							c := tv
							if arr, ok := derefType(al.Type()).Underlying().(*types.Array); ok && arr.Len() == 1 {
								c.distinct = true
							} else {
								c.distinct = false
							}
							add(al, c)
						}
					}
				}
			case *ssa.UnOp:
				if x.Op == token.MUL && x.X == v {
					c := tv
					c.cell = false
					add(x, c)
				}
			case *ssa.FieldAddr:
				if x.X != v || tv.cell {
					continue
				}
				fl := core.FieldOf(x)
				if fl == nil {
					continue
				}
				switch tv.kind {
				case tkMsg:
					// handled at seeding
				case tkNotar:
					if fl.Name() == "VerificationTickets" {
						add(x, tval{kind: tkTickets, class: tv.class, cell: true})
					}
				case tkBlock:
					switch fl.Name() {
					case "VerificationTickets":
						if !tv.ownOK {
							add(x, tval{kind: tkTickets, class: tv.class, fl: flOwn, cell: true})
						}
					case "UnverifiedBlockBody":
						add(x, tval{kind: tkBlock, class: tv.class, fl: -1, ownOK: tv.ownOK}) // embedded body: only to reach PrevBlockVerificationTickets
					case "PrevBlockVerificationTickets":
						add(x, tval{kind: tkTickets, class: tv.class, fl: flPrev, cell: true})
					}
				case tkTickets:
					if isTicketish(x.Type()) {
						c := tv
						add(x, c) // &bvt.VerificationTicket is the ticket itself
					}
				}
			case *ssa.IndexAddr:
				if x.X == v && tv.kind == tkTickets && !tv.cell {
					c := tv
					c.cell = true
					add(x, c)
				}
			case *ssa.Slice:
				if x.X == v && tv.kind == tkTickets {
					c := tv
					c.cell = false
					add(x, c)
				}
			case *ssa.Convert:
				add(x, tv)
			case *ssa.ChangeType:
				add(x, tv)
			case *ssa.Extract:
				// tuple results handled at the call
			case *ssa.Call:
				a.callResult(x, v, tv, add)
			}
		}
	}
}

func (a *c31Fn) callResult(c *ssa.Call, v ssa.Value, tv tval, add func(ssa.Value, tval)) {
	if tv.cell {
		return
	}
	m := core.MethodName(c.Common())
	recv := core.Receiver(c.Common())
	setRes := func(nt tval) {
		if c.Call.Signature().Results().Len() == 1 {
			add(c, nt)
			return
		}
		for _, ref := range *c.Referrers() {
			if ex, ok := ref.(*ssa.Extract); ok && (isTicketish(ex.Type()) || isBlockPtr(ex.Type())) {
				add(ex, nt)
			}
		}
	}
	if tv.kind == tkBlock && recv == v {
		switch m {
		case "GetVerificationTickets":
			if !tv.ownOK {
				setRes(tval{kind: tkTickets, class: tv.class, fl: flOwn})
			}
			return
		case "GetPrevBlockVerificationTickets":
			setRes(tval{kind: tkTickets, class: tv.class, fl: flPrev})
			return
		}
	}
	if tv.kind == tkTickets {
		if c.Common().StaticCallee() == a.e.fns.unknownTickets && recv != v {
			nt := tv
			nt.distinct = true
			setRes(nt)
			return
		}
	}
	// generic: a call fed with tainted tickets / block returning tickets / block
	res := c.Call.Signature().Results()
	for i := 0; i < res.Len(); i++ {
		t := res.At(i).Type()
		if tv.kind == tkTickets && isTicketish(t) {
			nt := tv
			nt.distinct = false
			setRes(nt)
			return
		}
		if tv.kind == tkBlock && tv.fl != -1 && isBlockPtr(t) && recv != v {
			// e.g. AddRoundBlock(r, b) returns b itself or the local copy that absorbed b
			if a.isArg(c, v) {
				setRes(tv)
				return
			}
		}
	}
}

func (a *c31Fn) isArg(c *ssa.Call, v ssa.Value) bool {
	for _, x := range core.CallArgs(c.Common()) {
		if x == v {
			return true
		}
	}
	return false
}

// ---- sanitisation ------------------------------------------------------------------

// verifiedBy: does the error-checked call c verify the tickets of (class, flavour)?
// returns (signatures verified, distinctness established).
func (a *c31Fn) verifyCall(c *ssa.Call, class int, fl tFlavour) (sig, dist bool) {
	cal := c.Common().StaticCallee()
	e := a.e
	match := func(v ssa.Value) bool {
		tv, ok := a.T[v]
		return ok && !tv.cell && tv.kind == tkTickets && tv.class == class && tv.fl == fl
	}
	matchBlock := func(v ssa.Value) bool {
		tv, ok := a.T[v]
		return ok && !tv.cell && tv.kind == tkBlock && tv.class == class && tv.fl != -1
	}
	// the hash and round the tickets are verified against must be those of the block
	// that carries them (own: b.Hash / b.Round; previous: b.PrevHash / b.Round-1)
	bound := func(hash, round ssa.Value) bool {
		isBlk := func(v ssa.Value) bool {
			tv, ok := a.T[v]
			return ok && tv.kind == tkBlock && tv.class == class
		}
		fieldOfBlk := func(v ssa.Value, name string) bool {
			rt, pth := core.BaseObject(v)
			return strings.HasSuffix(pth, "."+name) && (isBlk(rt) || isBlk(canonObj(rt)))
		}
		switch fl {
		case flOwn:
			return fieldOfBlk(hash, "Hash") && fieldOfBlk(round, "Round")
		case flPrev:
			// either (b.PrevHash, b.Round-1) or the linked previous block's own (Hash, Round)
			if rt, pth := core.BaseObject(hash); strings.Contains(pth, ".PrevBlock.") && strings.HasSuffix(pth, ".Hash") && (isBlk(rt) || isBlk(canonObj(rt))) {
				if rt2, p2 := core.BaseObject(round); strings.Contains(p2, ".PrevBlock.") && strings.HasSuffix(p2, ".Round") && (isBlk(rt2) || isBlk(canonObj(rt2))) {
					return true
				}
			}
			bo, ok := round.(*ssa.BinOp)
			if !ok || bo.Op != token.SUB {
				return false
			}
			k, isK := core.ConstInt(bo.Y)
			return isK && k == 1 && fieldOfBlk(bo.X, "Round") && fieldOfBlk(hash, "PrevHash")
		}
		return true
	}
	switch cal {
	case e.fns.verifyTickets:
		if match(c.Call.Args[3]) && bound(c.Call.Args[2], c.Call.Args[4]) {
			return true, false
		}
	case e.fns.verifyNotar:
		if match(c.Call.Args[3]) && bound(c.Call.Args[2], c.Call.Args[4]) {
			return true, true
		}
	case e.fns.verifyBlockNotar:
		if fl == flOwn && matchBlock(c.Call.Args[2]) {
			return true, true
		}
	}
	if cal == nil || cal.Blocks == nil || cal.Pkg == nil || !core.IsModule(cal.Pkg.Pkg.Path()) {
		return false, false
	}
	// first-party helpers: summarised
	args := c.Call.Args
	for i, arg := range args {
		if fl == flOwn && matchBlock(arg) {
			if s, d := e.summary(cal, i, tval{kind: tkBlock, class: 1}); s {
				return s, d
			}
		}
		if match(arg) {
			tv := a.T[arg]
			if s, d := e.summary(cal, i, tval{kind: tkTickets, class: 1, fl: tv.fl}); s || d {
				return s, d
			}
		}
	}
	return false, false
}

// summary: does callee, on every success exit, have verified (sig) / established
// distinctness (dist) of what its parameter i carries?
func (e *c31Eng) summary(fn *ssa.Function, i int, tv tval) (sig, dist bool) {
	if i >= len(fn.Params) {
		return false, false
	}
	key := fmt.Sprintf("%s|%d|%d|%d", fn.String(), i, tv.kind, tv.fl)
	if v, ok := e.summaries[key]; ok {
		return v&1 != 0, v&2 != 0
	}
	e.summaries[key] = 0 // recursion cut: assume nothing
	a := &c31Fn{e: e, fn: fn, T: map[ssa.Value]tval{fn.Params[i]: tv}}
	a.propagate()
	exits := core.SuccessExits(fn)
	sig, dist = len(exits) > 0, len(exits) > 0
	fl := tv.fl
	if tv.kind == tkBlock {
		fl = flOwn
	}
	for _, ret := range exits {
		if ret.Block() == fn.Recover {
			continue
		}
		s, d := a.sanitisedAt(ret, tv.class, fl, tv.kind == tkTickets && tv.distinct)
		if ei := core.ErrIndex(fn); ei >= 0 {
			if rc, ok := core.ResultValue(ret, ei).(*ssa.Call); ok {
				s2, d2 := a.verifyCall(rc, tv.class, fl)
				if !s2 && !d2 {
					s2, d2 = a.runnerCall(rc, tv.class, fl)
				}
				s, d = s || s2, d || d2
			}
		}
		if !s && tv.kind == tkBlock && a.ownListEmptyAt(ret) {
			s, d = true, true
		}
		// distinctness scan written inline (a complete duplicate-rejecting scan over the parameter)
		if !d && tv.kind == tkTickets {
			for _, ds := range dedupScans(fn, func(v ssa.Value) bool { return v == ssa.Value(fn.Params[i]) }) {
				if failsOnlyBlock(ds.foundIf.Block().Succs[ds.foundIdx]) && ds.rl.L.Header.Succs[1].Dominates(ret.Block()) {
					if okR, _ := ds.recordsOnAdmission(e.p); okR {
						d = true
					}
				}
			}
		}
		sig, dist = sig && s, dist && d
	}
	v := 0
	if sig {
		v |= 1
	}
	if dist {
		v |= 2
	}
	e.summaries[key] = v
	return
}

// ownListEmptyAt: a fact len(<own tickets>) == 0 dominates `at`.
func (a *c31Fn) ownListEmptyAt(at ssa.Instruction) bool {
	for _, f := range CmpFacts(at.Block()) {
		lc, ok := f.X.(*ssa.Call)
		if !ok || core.CalleeName(lc.Common()) != "builtin.len" {
			continue
		}
		if k, isK := core.ConstInt(f.Y); !(isK && k == 0 && f.Op == token.EQL) {
			continue
		}
		if tv, ok := a.T[lc.Call.Args[0]]; ok && tv.kind == tkTickets && tv.fl == flOwn {
			return true
		}
	}
	return false
}

// sanitisedAt: before instruction `at`, on every path, the tickets of (class, flavour)
// were verified (sig) and are known distinct (dist).
func (a *c31Fn) sanitisedAt(at ssa.Instruction, class int, fl tFlavour, distinctAlready bool) (sig, dist bool) {
	dist = distinctAlready
	for _, b := range a.fn.Blocks {
		for _, in := range b.Instrs {
			c, ok := in.(*ssa.Call)
			if !ok || ssa.Instruction(c) == at || !callDominates(c, at) {
				continue
			}
			if !(core.ErrLeadsToFailure(c) || errNilAt(c, at)) {
				continue
			}
			s, d := a.verifyCall(c, class, fl)
			if !s && !d {
				s, d = a.runnerCall(c, class, fl)
			}
			sig = sig || s
			dist = dist || d
		}
	}
	return
}

// errNilAt: the error result of c is known nil at instruction `at` (the nil edge of a
// test of that error dominates `at`) — the form a guard takes in handlers without an
// error result (`if err != nil { log; return }`).
func errNilAt(c *ssa.Call, at ssa.Instruction) bool {
	ev := core.ErrResult(c)
	if ev == nil {
		return false
	}
	return core.KnownNil(core.FactsAt(at.Block()), ev) == 1
}

// runnerCall: c = R(..., func() error {...}) error-checked, where R returns nil only if
// the closure returned nil, and the closure verifies the captured tickets.
func (a *c31Fn) runnerCall(c *ssa.Call, class int, fl tFlavour) (sig, dist bool) {
	for _, arg := range c.Call.Args {
		mk, ok := arg.(*ssa.MakeClosure)
		if !ok {
			continue
		}
		cl, ok := mk.Fn.(*ssa.Function)
		if !ok || cl.Signature.Results().Len() != 1 || !core.IsErrorType(cl.Signature.Results().At(0).Type()) {
			continue
		}
		if !a.e.propagatesClosureError(c) {
			continue
		}
		seeds := map[ssa.Value]tval{}
		for i, bd := range mk.Bindings {
			if tv, ok := a.T[bd]; ok {
				seeds[cl.FreeVars[i]] = tv
			}
		}
		if len(seeds) == 0 {
			continue
		}
		ca := &c31Fn{e: a.e, fn: cl, T: seeds}
		ca.propagate()
		exits := core.SuccessExits(cl)
		s, d := len(exits) > 0, len(exits) > 0
		for _, ret := range exits {
			if ret.Block() == cl.Recover {
				continue
			}
			// `return mc.VerifyX(...)`: the returned call itself is the check
			s1, d1 := ca.sanitisedAt(ret, class, fl, false)
			if rc, ok := core.ResultValue(ret, 0).(*ssa.Call); ok {
				s2, d2 := ca.verifyCall(rc, class, fl)
				s1, d1 = s1 || s2, d1 || d2
			}
			s, d = s && s1, d && d1
		}
		if s || d {
			return s, d
		}
	}
	return false, false
}

// propagatesClosureError: the callee of c returns nil only when the function value it
// was given returned nil (it calls it and returns/forwards its error).
func (e *c31Eng) propagatesClosureError(c *ssa.Call) bool {
	cal := c.Common().StaticCallee()
	if cal == nil || cal.Blocks == nil {
		return false
	}
	var fp *ssa.Parameter
	for _, prm := range cal.Params {
		if sg, ok := prm.Type().Underlying().(*types.Signature); ok && sg.Results().Len() == 1 && core.IsErrorType(sg.Results().At(0).Type()) {
			fp = prm
		}
	}
	if fp == nil {
		return false
	}
	for _, ret := range core.Returns(cal) {
		if core.ClassifyReturn(ret) == core.ExitFailure || ret.Block() == cal.Recover {
			continue
		}
		ei := core.ErrIndex(cal)
		if ei < 0 {
			return false
		}
		rv := core.ResultValue(ret, ei)
		// return f()  |  err := f(); ... return err (nil only when f's error nil)
		if rc, ok := rv.(*ssa.Call); ok && core.ParamOf(rc.Call.Value) == fp {
			continue
		}
		// ctx.Err() after <-ctx.Done(): non-nil by the context contract
		if rc, ok := rv.(*ssa.Call); ok && rc.Call.IsInvoke() && rc.Call.Method.Name() == "Err" && strings.HasSuffix(rc.Call.Value.Type().String(), "context.Context") {
			continue
		}
		// explicit nil: must be dominated by a call of fp whose error was checked
		okDom := false
		for _, b := range cal.Blocks {
			for _, in := range b.Instrs {
				if fc, ok := in.(*ssa.Call); ok && core.ParamOf(fc.Call.Value) == fp && callDominates(fc, ret) && core.ErrLeadsToFailure(fc) {
					okDom = true
				}
			}
		}
		// closures of the callee (e.g. run under a lock helper) are not followed: fail closed
		if !okDom {
			return e.propagatesViaInner(cal, fp)
		}
	}
	return true
}

// propagatesViaInner handles one more level: the callee hands the function value on to
// another runner and returns that runner's error.
func (e *c31Eng) propagatesViaInner(cal *ssa.Function, fp *ssa.Parameter) bool {
	for _, ret := range core.Returns(cal) {
		if core.ClassifyReturn(ret) == core.ExitFailure || ret.Block() == cal.Recover {
			continue
		}
		rv := core.ResultValue(ret, core.ErrIndex(cal))
		rc, ok := rv.(*ssa.Call)
		if !ok {
			return false
		}
		passes := false
		for _, a := range rc.Call.Args {
			if core.ParamOf(a) == fp {
				passes = true
			}
		}
		if !passes || !e.propagatesClosureError(rc) {
			return false
		}
	}
	return true
}

// ---- uses: sinks, calls, closures, channels ----------------------------------------

func (a *c31Fn) blockSanitisedAt(at ssa.Instruction, class int) bool {
	s, d := a.sanitisedAt(at, class, flOwn, false)
	return (s && d) || a.ownListEmptyAt(at)
}

func (a *c31Fn) ticketsSanitisedAt(at ssa.Instruction, tv tval) (bool, string) {
	if tv.fl == flOwn && a.blockSanitisedAt(at, tv.class) {
		return true, ""
	}
	s, d := a.sanitisedAt(at, tv.class, tv.fl, tv.distinct)
	if s && d {
		return true, ""
	}
	return false, fmt.Sprintf("signatures-verified=%v distinct-verifiers=%v", s, d)
}

// notarizedPathsOf: access paths P such that <v>P.IsBlockNotarized() == true dominates at.
func (a *c31Fn) notarizedPathsOf(at ssa.Instruction, v ssa.Value) []string {
	var out []string
	for _, f := range core.FactsAt(at.Block()) {
		cv, taken := stripNot(f.Cond, f.Taken)
		ic, ok := cv.(*ssa.Call)
		if !ok || !taken || core.MethodName(ic.Common()) != "IsBlockNotarized" {
			continue
		}
		rt, pth := core.BaseObject(core.Receiver(ic.Common()))
		if rt == v || canonObj(rt) == canonObj(v) {
			out = append(out, pth)
		}
	}
	return out
}

func (a *c31Fn) targetAlreadyNotarized(c *ssa.Call, target ssa.Value) bool {
	if rt, pth := core.BaseObject(target); a.entryNotarized != nil {
		for _, p := range a.entryNotarized[rt] {
			if p == pth {
				return true
			}
		}
		if prm := core.ParamOf(rt); prm != nil {
			for _, p := range a.entryNotarized[prm] {
				if p == pth {
					return true
				}
			}
		}
	}
	for _, f := range core.FactsAt(c.Block()) {
		cv, taken := stripNot(f.Cond, f.Taken)
		if ic, ok := cv.(*ssa.Call); ok && taken && core.MethodName(ic.Common()) == "IsBlockNotarized" && canonObj(core.Receiver(ic.Common())) == canonObj(target) {
			return true
		}
	}
	return false
}

func (a *c31Fn) report(okv bool, kind string, c ssa.Instruction, class int, detail string) {
	e := a.e
	key := fmt.Sprintf("%s:%s@%s", kind, a.fn.String(), posKey(e.p, c))
	if e.reported[key+fmt.Sprint(okv)] {
		return
	}
	e.reported[key+fmt.Sprint(okv)] = true
	e.sinksSeen++
	construct := fmt.Sprintf("%s in %s", kind, a.fn.String())
	e.r.Check(okv, "C31.ingress", construct, posOf(e.p, c), detail+"; data from "+e.srcOf[class]+"; reached via"+a.via)
}

func posKey(p *core.Prog, in ssa.Instruction) string {
	// position independent of line numbers: index of the call among same-callee calls
	if c, ok := in.(ssa.CallInstruction); ok {
		n := 0
		for _, b := range in.Parent().Blocks {
			for _, x := range b.Instrs {
				if x == in {
					return fmt.Sprintf("%s#%d", core.CalleeName(c.Common()), n)
				}
				if y, ok := x.(ssa.CallInstruction); ok && core.CalleeName(y.Common()) == core.CalleeName(c.Common()) {
					n++
				}
			}
		}
	}
	return "?"
}

func (a *c31Fn) uses(depth int) {
	e := a.e
	// deterministic order
	var vals []ssa.Value
	for v := range a.T {
		vals = append(vals, v)
	}
	sort.Slice(vals, func(i, j int) bool { return vals[i].Name() < vals[j].Name() })
	for _, b := range a.fn.Blocks {
		for _, in := range b.Instrs {
			switch x := in.(type) {
			case ssa.CallInstruction:
				a.useCall(x, depth)
			case *ssa.MakeClosure:
				cl, ok := x.Fn.(*ssa.Function)
				if !ok {
					continue
				}
				seeds := map[ssa.Value]tval{}
				for i, bd := range x.Bindings {
					tv, ok := a.T[bd]
					if !ok {
						continue
					}
					if a.flowStopped(x, tv) {
						continue
					}
					if tv.kind == tkBlock && !tv.ownOK && a.blockSanitisedAt(x, tv.class) {
						tv.ownOK = true
					}
					seeds[cl.FreeVars[i]] = tv
				}
				if len(seeds) > 0 {
					e.flows++
					e.analyze(cl, seeds, depth+1, a.via)
				}
			case *ssa.Send:
				if tv, ok := a.T[x.X]; ok && !tv.cell && !a.flowStopped(x, tv) {
					if tv.kind == tkBlock && !tv.ownOK && a.blockSanitisedAt(x, tv.class) {
						tv.ownOK = true
					}
					a.bridge(x.Chan, tv, depth)
				}
			case *ssa.Select:
				for _, st := range x.States {
					if st.Dir == types.SendOnly && st.Send != nil {
						if tv, ok := a.T[st.Send]; ok && !tv.cell && !a.flowStopped(x, tv) {
							if tv.kind == tkBlock && !tv.ownOK && a.blockSanitisedAt(x, tv.class) {
								tv.ownOK = true
							}
							a.bridge(st.Chan, tv, depth)
						}
					}
				}
			}
		}
	}
}

// flowStopped: the tainted value is verified at this point, nothing to follow further.
func (a *c31Fn) flowStopped(at ssa.Instruction, tv tval) bool {
	switch tv.kind {
	case tkBlock:
		return false // a block is followed on (its previous-block tickets stay untrusted); see ownOK
	case tkTickets:
		ok, _ := a.ticketsSanitisedAt(at, tv)
		return ok
	}
	return false
}

func (a *c31Fn) bridge(ch ssa.Value, tv tval, depth int) {
	e := a.e
	k := e.chanKey(ch, 0)
	if k == "" {
		return
	}
	for _, rc := range e.chanRecv[k] {
		e.flows++
		e.analyze(rc.fn, map[ssa.Value]tval{rc.val: tv}, depth+1, a.via+" → chan "+k)
	}
}

func (a *c31Fn) useCall(ci ssa.CallInstruction, depth int) {
	e := a.e
	cc := ci.Common()
	cal := cc.StaticCallee()
	args := cc.Args
	var tainted []int
	for i, arg := range args {
		if tv, ok := a.T[arg]; ok && !tv.cell {
			_ = tv
			tainted = append(tainted, i)
		}
	}
	if cc.IsInvoke() {
		if tv, ok := a.T[cc.Value]; ok && !tv.cell {
			_ = tv
		}
	}
	if len(tainted) == 0 {
		return
	}
	// verification calls themselves are not flows
	if cal == e.fns.verifyTickets || cal == e.fns.verifyNotar || cal == e.fns.verifyBlockNotar {
		return
	}
	// ---- primitive sinks
	switch cal {
	case e.fns.setNotarized:
		if tv := a.T[args[0]]; tv.kind == tkBlock && tv.fl != -1 {
			okv := tv.ownOK || a.blockSanitisedAt(ci, tv.class)
			a.report(okv, "received-block-marked-notarized", ci, tv.class, "SetBlockNotarized on a received block requires that the tickets the block carried were verified (signatures, distinct verifiers) on every path")
		}
		return
	case e.fns.addTicket, e.fns.mergeTickets, e.fns.roundAddTickets:
		if tv, ok := a.T[args[1]]; ok && tv.kind == tkTickets && !tv.cell {
			okv, why := a.ticketsSanitisedAt(ci, tv)
			if !okv && cal != e.fns.roundAddTickets && a.targetAlreadyNotarized(ci.(*ssa.Call), args[0]) {
				okv, why = true, "target already notarized: the tickets cannot change the decision"
			}
			a.report(okv, "received-tickets-admitted:"+cal.Name(), ci, tv.class, "tickets received from the network are admitted only after an error-checked verification of those very tickets; "+why)
		}
		// a received block as the *target* of a merge is followed through UpdateBlockNotarization by the callers
		return
	}
	// ---- interprocedural
	var targets []*ssa.Function
	if cal != nil {
		if cal.Blocks != nil && cal.Pkg != nil && core.IsModule(cal.Pkg.Pkg.Path()) {
			targets = []*ssa.Function{cal}
		}
	} else if cc.IsInvoke() {
		// interface call: every module method of that name whose receiver implements the interface
		name := cc.Method.Name()
		for _, f := range e.p.ModFuncs() {
			if f.Name() != name || f.Signature.Recv() == nil || f.Blocks == nil || isTooling(e.p, f) {
				continue
			}
			if it, ok := cc.Value.Type().Underlying().(*types.Interface); ok && types.Implements(f.Signature.Recv().Type(), it) {
				targets = append(targets, f)
			}
		}
	} else if mk, ok := cc.Value.(*ssa.MakeClosure); ok {
		if f, ok := mk.Fn.(*ssa.Function); ok {
			targets = []*ssa.Function{f}
		}
	} else if f := calleeOfValue(cc.Value, a.fn); f != nil {
		targets = []*ssa.Function{f}
	}
	for _, tg := range targets {
		if isTooling(e.p, tg) || strings.HasPrefix(tg.Pkg.Pkg.Path(), "0chain.net/conductor") {
			continue
		}
		seeds := map[ssa.Value]tval{}
		entry := map[ssa.Value][]string{}
		off := 0
		if cc.IsInvoke() {
			off = 1 // receiver is Params[0] of the method
		}
		for _, i := range tainted {
			tv := a.T[args[i]]
			if tv.kind == tkBlock && tv.fl == -1 {
				continue
			}
			if a.flowStopped(ci, tv) {
				a.report(true, "received-data-handed-on-only-after-verification:"+tg.Name(), ci, tv.class, "the received tickets are verified (error-checked, dominating) before this call receives them")
				continue
			}
			if tv.kind == tkBlock && !tv.ownOK && a.blockSanitisedAt(ci, tv.class) {
				a.report(true, "received-block-handed-on-only-after-verification:"+tg.Name(), ci, tv.class, "the tickets the received block carries are verified (error-checked, dominating) before this call receives the block")
				tv.ownOK = true
			}
			pi := i + off
			if pi < len(tg.Params) {
				seeds[tg.Params[pi]] = tv
				if tv.kind == tkBlock {
					if ps := a.notarizedPathsOf(ci, args[i]); len(ps) > 0 {
						entry[tg.Params[pi]] = ps
					}
				}
			}
		}
		if len(seeds) > 0 {
			// blocks handed over that are known to be notarized already (locally or by an
			// inherited fact): admitting tickets to them cannot change a decision
			for i, arg := range args {
				pi := i + off
				if pi >= len(tg.Params) || !isBlockPtr(arg.Type()) {
					continue
				}
				if c, ok := ci.(*ssa.Call); ok && a.targetAlreadyNotarized(c, arg) {
					entry[tg.Params[pi]] = append(entry[tg.Params[pi]], "")
				}
			}
			e.flows++
			e.analyze(tg, seeds, depth+1, a.via, entry)
		}
	}
}
