package props

import (
	"fmt"
	"go/token"
	"strings"

	"golang.org/x/tools/go/ssa"

	"zv/core"
)

func init() { register("C22", "other", c22) }

const pkgMinerSC = "0chain.net/smartcontract/minersc"

// C22 Block fees and rewards are split exactly between miner and sharders.
func c22(r *core.Report, p *core.Prog, thorough bool) {
	r.Explain = "Decided (structure of minersc:payFees and of the block-level duplicate check): every reward sink in payFees is dominated by txn.ClientID == block.MinerID and by input.Round == block.Round (input decoded from the transaction, error aborting); the two totals are sumFee(block) — a complete accumulation of txn.Fee with checked addition — and MultFloat64(gn.BlockReward, gn.RewardRate); each is split once by splitByShareRatio, whose second part is MinusCoin(total, first part) by construction; the four parts reach exactly four sinks (two on the rewarded miner's stake pool, two sharder divisions), each part once; the sharder division hands DistributeCoin's quotient to every rewarded sharder in a complete loop and one extra unit while the remainder counter is positive, decrementing it in the same branch; miner node, every rewarded sharder node and the global node are saved on every success path, errors aborting. Once per block: ValidateTransactions rejects a second built-in transaction of the same name through one map and one mutex shared by all validation workers, consulted for every transaction of every batch, and payFees is in the built-in table. Not decided: numeric totals through the float share ratio; DistributeCoin's own contract (dependency); delegate-level split (C10)."
	r.Rule("C22.generator", "every reward sink of payFees is dominated by t.ClientID == GetBlock().MinerID and <decoded input>.Round == GetBlock().Round")
	r.Rule("C22.totals", "fees = sumFee(block) (complete checked accumulation of txn.Fee), reward = MultFloat64(gn.BlockReward, gn.RewardRate); each split exactly once, errors aborting")
	r.Rule("C22.split", "splitByShareRatio returns (x, MinusCoin(total, x)) with the subtraction error returned")
	r.Rule("C22.sinks", "the four parts reach four sinks, each once: miner parts → DistributeRewardsRandN on getRewardedMiner(block).StakePool, sharder parts → payShardersAndDelegates on one sharder list; errors abort")
	r.Rule("C22.division", "payShardersAndDelegates: (share, left) = DistributeCoin(reward, len(sharders)); complete loop over the sharders paying share + (1 while left > 0, left-- in the same branch); redistribution keeps share*n+left; errors abort")
	r.Rule("C22.saved", "rewarded miner (when present), every rewarded sharder and the global node are saved on every success path after the credits, errors aborting")
	r.Rule("C22.once", "ValidateTransactions: a single duplicate table and mutex created outside the per-batch workers; every transaction of every batch is checked; a duplicate built-in name cancels validation; payFees is in the built-in table")

	hs := BuildHandlers(p).Get("minersc:payFees")
	if len(hs) != 1 {
		r.Unresolved("C22.generator", "minersc:payFees handler")
		return
	}
	h := hs[0]
	split := p.Func("(*" + pkgMinerSC + ".GlobalNode).splitByShareRatio")
	paySh := p.Func("(*" + pkgMinerSC + ".MinerSmartContract).payShardersAndDelegates")
	sumFee := p.Func("(*" + pkgMinerSC + ".MinerSmartContract).sumFee")
	if split == nil || paySh == nil || sumFee == nil {
		r.Unresolved("C22.split", "splitByShareRatio / payShardersAndDelegates / sumFee")
		return
	}
	var txnPrm, inputPrm *ssa.Parameter
	for _, prm := range h.Params {
		if core.NamedName(derefType(prm.Type())) == "0chain.net/chaincore/transaction.Transaction" {
			txnPrm = prm
		}
		if prm.Type().String() == "[]byte" {
			inputPrm = prm
		}
	}
	if txnPrm == nil || inputPrm == nil {
		r.Unresolved("C22.generator", "payFees parameters (txn, input)")
		return
	}
	// ---- sinks
	var minerSinks, sharderSinks []*ssa.Call
	for _, c := range methodCalls(h, "DistributeRewardsRandN") {
		minerSinks = append(minerSinks, c)
	}
	for _, c := range methodCalls(h, "DistributeRewards") {
		minerSinks = append(minerSinks, c)
	}
	sharderSinks = findCallsTo(h, paySh)
	// no other reward path: other calls in the handler that reach a Reward store are reported
	all := append(append([]*ssa.Call{}, minerSinks...), sharderSinks...)
	r.Check(len(minerSinks) == 2 && len(sharderSinks) == 2, "C22.sinks", "payFees:four-sinks", p.Pos(h.Pos()), fmt.Sprintf("%d direct reward calls and %d sharder divisions in payFees (want 2 and 2)", len(minerSinks), len(sharderSinks)))
	// callers of the division
	nCallers := 0
	for _, fn := range p.ModFuncs() {
		if !isTooling(p, fn) {
			nCallers += len(findCallsTo(fn, paySh))
		}
	}
	r.Check(nCallers == len(sharderSinks), "C22.sinks", "payShardersAndDelegates:only-from-payFees", p.Pos(paySh.Pos()), fmt.Sprintf("%d call sites in the module, %d in payFees", nCallers, len(sharderSinks)))

	isBlock := func(v ssa.Value) bool {
		rt, _ := core.BaseObject(v)
		c, ok := canonObj(rt).(*ssa.Call)
		return ok && core.MethodName(c.Common()) == "GetBlock"
	}
	blockField := func(v ssa.Value, f string) bool {
		_, pth := core.BaseObject(v)
		return strings.HasSuffix(pth, "."+f) && isBlock(v)
	}
	// decoded input object
	var inputObj ssa.Value
	for _, c := range findCalls(h, "encoding/json.Unmarshal") {
		if core.ParamOf(c.Call.Args[0]) == inputPrm && core.ErrLeadsToFailure(c) {
			inputObj, _ = core.BaseObject(c.Call.Args[1])
		}
	}
	for i, s := range all {
		gen, rnd := false, false
		for _, f := range CmpFacts(s.Block()) {
			if f.Op != token.EQL {
				continue
			}
			x, y := f.X, f.Y
			for k := 0; k < 2; k++ {
				if rt, pth := core.BaseObject(x); pth == ".ClientID" && core.ParamOf(rt) == txnPrm && blockField(y, "MinerID") {
					gen = true
				}
				if rt, pth := core.BaseObject(x); pth == ".Round" && blockField(y, "Round") {
					if inputObj != nil && rt == inputObj {
						rnd = true
					}
					// decoded inside a guard helper: the object is the helper's own decode target
					// of an error-checked json.Unmarshal of the input it was handed
					if bv, ok := rt.(*core.Bound); ok && bv.V.Parent() != nil {
						for _, c := range findCalls(bv.V.Parent(), "encoding/json.Unmarshal") {
							tgt, _ := core.BaseObject(c.Call.Args[1])
							src := core.ParamOf(c.Call.Args[0])
							if tgt == bv.V && src != nil && core.ParamOf(bv.Bind[src]) == inputPrm && core.ErrLeadsToFailure(c) {
								rnd = true
							}
						}
					}
				}
				x, y = y, x
			}
		}
		r.Check(gen, "C22.generator", fmt.Sprintf("payFees:sink#%d:generator-only", i+1), p.Pos(s.Pos()), "the credit is dominated by txn.ClientID == block.MinerID")
		r.Check(rnd, "C22.generator", fmt.Sprintf("payFees:sink#%d:this-round", i+1), p.Pos(s.Pos()), "the credit is dominated by <decoded input>.Round == block.Round")
	}
	// ---- totals and splits
	splits := findCallsTo(h, split)
	var feeSplit, rewSplit *ssa.Call
	for _, c := range splits {
		arg := resolveCell(core.CallArgs(c.Common())[0])
		if cc, idx := core.CallOf(arg); cc != nil && idx == 0 {
			if cc.Common().StaticCallee() == sumFee && core.ErrLeadsToFailure(cc) && isBlock(core.CallArgs(cc.Common())[0]) {
				feeSplit = c
			}
			if core.CalleeName(cc.Common()) == pkgCurr+".MultFloat64" && core.ErrLeadsToFailure(cc) {
				_, p0 := core.BaseObject(cc.Call.Args[0])
				_, p1 := core.BaseObject(cc.Call.Args[1])
				if p0 == ".BlockReward" && p1 == ".RewardRate" {
					rewSplit = c
				}
			}
		}
	}
	okTot := len(splits) == 2 && feeSplit != nil && rewSplit != nil && core.ErrLeadsToFailure(feeSplit) && core.ErrLeadsToFailure(rewSplit)
	r.Check(okTot, "C22.totals", "payFees:two-splits-of-fees-and-reward", p.Pos(h.Pos()), fmt.Sprintf("%d splitByShareRatio calls; fee total from sumFee(block): %v; reward total from MultFloat64(gn.BlockReward, gn.RewardRate): %v", len(splits), feeSplit != nil, rewSplit != nil))
	if okTot {
		part := func(v ssa.Value) (which string) {
			v = resolveCell(v)
			e, ok := v.(*ssa.Extract)
			if !ok {
				return ""
			}
			switch e.Tuple {
			case ssa.Value(feeSplit):
				return fmt.Sprintf("fees#%d", e.Index)
			case ssa.Value(rewSplit):
				return fmt.Sprintf("reward#%d", e.Index)
			}
			return ""
		}
		seen := map[string]int{}
		for i, s := range minerSinks {
			w := part(core.CallArgs(s.Common())[0])
			seen[w]++
			r.Check(strings.HasSuffix(w, "#0"), "C22.sinks", fmt.Sprintf("payFees:miner-sink#%d:miner-part", i+1), p.Pos(s.Pos()), "the generator's stake pool receives the first (miner) part of a split; got "+describe(core.CallArgs(s.Common())[0])+" = "+w)
			// receiver: getRewardedMiner(block).StakePool
			rt, pth := core.BaseObject(core.Receiver(s.Common()))
			gm, idx := core.CallOf(canonObj(rt))
			okRecv := pth == ".StakePool" && gm != nil && idx == 0 && strings.HasSuffix(core.CalleeName(gm.Common()), ".getRewardedMiner") && isBlock(gm.Call.Args[0])
			r.Check(okRecv && core.ErrLeadsToFailure(s), "C22.sinks", fmt.Sprintf("payFees:miner-sink#%d:rewarded-miner-pool", i+1), p.Pos(s.Pos()), "credited to getRewardedMiner(block).StakePool, error aborting; got "+describe(core.Receiver(s.Common())))
		}
		var lists []ssa.Value
		for i, s := range sharderSinks {
			a := core.CallArgs(s.Common())
			w := part(a[2])
			seen[w]++
			lists = append(lists, a[1])
			r.Check(strings.HasSuffix(w, "#1") && core.ErrLeadsToFailure(s), "C22.sinks", fmt.Sprintf("payFees:sharder-sink#%d:sharder-part", i+1), p.Pos(s.Pos()), "the sharder division receives the second (complement) part of a split, error aborting; got "+describe(a[2])+" = "+w)
		}
		okOnce := true
		for _, k := range []string{"fees#0", "fees#1", "reward#0", "reward#1"} {
			if seen[k] != 1 {
				okOnce = false
			}
		}
		r.Check(okOnce, "C22.sinks", "payFees:each-part-once", p.Pos(h.Pos()), fmt.Sprintf("each of the four parts is credited exactly once; uses: %v", seen))
		if len(lists) == 2 {
			r.Check(lists[0] == lists[1], "C22.sinks", "payFees:one-sharder-list", p.Pos(h.Pos()), "both sharder divisions pay the same rewarded-sharder list (the one that is saved)")
		}
		c22Saved(r, p, h, minerSinks, sharderSinks, lists)
	}
	c22Split(r, p, split)
	c22SumFee(r, p, sumFee)
	c22Division(r, p, paySh)
	c22Once(r, p)
}

func c22Split(r *core.Report, p *core.Prog, split *ssa.Function) {
	total := split.Params[1]
	ok := false
	why := "no success exit"
	for _, ret := range core.Returns(split) {
		if core.ClassifyReturn(ret) == core.ExitFailure {
			continue
		}
		x := core.ResultValue(ret, 0)
		y := core.ResultValue(ret, 1)
		e := core.ResultValue(ret, 2)
		mc, idx := core.CallOf(y)
		if mc == nil || idx != 0 || core.CalleeName(mc.Common()) != pkgCurr+".MinusCoin" {
			ok, why = false, "second part is not MinusCoin(total, first)#0 at "+p.Pos(ret.Pos())
			break
		}
		ec, eidx := core.CallOf(e)
		errOK := (ec == mc && eidx == 1) || (core.IsNilConst(e) && core.ErrLeadsToFailure(mc))
		if mc.Call.Args[0] != ssa.Value(total) || mc.Call.Args[1] != x || !errOK {
			ok, why = false, "complement shape broken: MinusCoin("+describe(mc.Call.Args[0])+", "+describe(mc.Call.Args[1])+") with first part "+describe(x)
			break
		}
		ok, why = true, ""
	}
	r.Check(ok, "C22.split", "splitByShareRatio:complement", p.Pos(split.Pos()), "miner + sharders == total by construction; "+why)
}

func c22SumFee(r *core.Report, p *core.Prog, sumFee *ssa.Function) {
	blk := sumFee.Params[1]
	ok := false
	why := "no range loop over b.Txns accumulating txn.Fee"
	for _, rl := range RangeLoops(sumFee) {
		rt, pth := core.BaseObject(rl.Slice)
		if core.ParamOf(rt) != blk || !strings.HasSuffix(pth, ".Txns") {
			continue
		}
		// accumulator phi at header
		for _, in := range rl.L.Header.Instrs {
			ph, isPhi := in.(*ssa.Phi)
			if !isPhi || !isCoin(ph.Type()) {
				continue
			}
			good := true
			for _, e := range ph.Edges {
				if k, isK := core.ConstInt(e); isK && k == 0 {
					continue
				}
				ac, idx := core.CallOf(e)
				if ac == nil || idx != 0 || core.CalleeName(ac.Common()) != pkgCurr+".AddCoin" || !core.ErrLeadsToFailure(ac) {
					good = false
					continue
				}
				if ac.Call.Args[0] != ssa.Value(ph) {
					good = false
				}
				// second arg: elem.Fee
				ld, isLd := ac.Call.Args[1].(*ssa.UnOp)
				okFee := false
				if isLd {
					if fa, isFa := ld.X.(*ssa.FieldAddr); isFa && core.FieldOf(fa) != nil && core.FieldOf(fa).Name() == "Fee" && rl.IsElem(fa.X) {
						okFee = true
					}
				}
				if !okFee {
					good = false
				}
				if okB, _ := rl.BodyMustPass(p, ac); !okB {
					good = false
				}
			}
			if !good {
				continue
			}
			// every success return returns the accumulator
			allRet := true
			for _, ret := range core.SuccessExits(sumFee) {
				if core.ResultValue(ret, 0) != ssa.Value(ph) {
					allRet = false
				}
			}
			if allRet {
				ok, why = true, ""
			} else {
				why = "a success exit does not return the accumulated total"
			}
		}
	}
	r.Check(ok, "C22.totals", "sumFee:complete-checked-sum-of-fees", p.Pos(sumFee.Pos()), "the fee total is the checked sum of txn.Fee over every transaction of the block; "+why)
}

func c22Division(r *core.Report, p *core.Prog, paySh *ssa.Function) {
	list, reward := paySh.Params[2], paySh.Params[3]
	// first DistributeCoin(reward, int64(len(list)))
	var dc0 *ssa.Call
	for _, c := range findCalls(paySh, pkgCurr+".DistributeCoin") {
		if c.Call.Args[0] == ssa.Value(reward) {
			dc0 = c
		}
	}
	isN := func(v ssa.Value) bool {
		if cv, ok := v.(*ssa.Convert); ok {
			v = cv.X
		}
		lc, ok := v.(*ssa.Call)
		return ok && core.CalleeName(lc.Common()) == "builtin.len" && lc.Call.Args[0] == ssa.Value(list)
	}
	if !r.Check(dc0 != nil && isN(dc0.Call.Args[1]) && core.ErrLeadsToFailure(dc0), "C22.division", "division:DistributeCoin(reward,len(sharders))", p.Pos(paySh.Pos()), "quotient and remainder come from one checked DistributeCoin(reward, len(rewardSharders))") {
		return
	}
	// cells for share / left
	var cS, cL *ssa.Alloc
	for _, ref := range *dc0.Referrers() {
		e, ok := ref.(*ssa.Extract)
		if !ok {
			continue
		}
		for _, r2 := range *e.Referrers() {
			if st, ok := r2.(*ssa.Store); ok {
				if al, ok := st.Addr.(*ssa.Alloc); ok {
					if e.Index == 0 {
						cS = al
					} else if e.Index == 1 {
						cL = al
					}
				}
			}
		}
	}
	if cS == nil && cL == nil {
		// the per-sharder step is written inline in the loop: share and remainder are SSA values
		c22DivisionInline(r, p, paySh, list, dc0, isN)
		return
	}
	if cS == nil || cL == nil {
		r.Fail("C22.division", "division:cells", p.Pos(dc0.Pos()), "the quotient/remainder are not kept in variables shared with the per-sharder step (shape not recognised)")
		return
	}
	// every other store to cS / cL in the outer function is a conserving redistribution
	okRe := true
	whyRe := ""
	for _, cell := range []*ssa.Alloc{cS, cL} {
		for _, ref := range *cell.Referrers() {
			st, ok := ref.(*ssa.Store)
			if !ok || st.Addr != ssa.Value(cell) {
				continue
			}
			if e, ok := st.Val.(*ssa.Extract); ok && e.Tuple == ssa.Value(dc0) {
				continue
			}
			// redistribution: dc1 = DistributeCoin(load cL, n) checked; cS = AddCoin(load cS, dc1#0)#0 checked; cL = dc1#1
			good := false
			if cell == cL {
				if e, ok := st.Val.(*ssa.Extract); ok && e.Index == 1 {
					if dc1, ok := e.Tuple.(*ssa.Call); ok && core.CalleeName(dc1.Common()) == pkgCurr+".DistributeCoin" && core.ErrLeadsToFailure(dc1) && isN(dc1.Call.Args[1]) && isCellLoad(dc1.Call.Args[0], cL) {
						good = true
					}
				}
			} else {
				if ac, idx := core.CallOf(st.Val); ac != nil && idx == 0 && core.CalleeName(ac.Common()) == pkgCurr+".AddCoin" && core.ErrLeadsToFailure(ac) && isCellLoad(ac.Call.Args[0], cS) {
					if e, ok := ac.Call.Args[1].(*ssa.Extract); ok && e.Index == 0 {
						if dc1, ok := e.Tuple.(*ssa.Call); ok && core.CalleeName(dc1.Common()) == pkgCurr+".DistributeCoin" && isN(dc1.Call.Args[1]) && isCellLoad(dc1.Call.Args[0], cL) {
							// the matching store of the new remainder must follow on every path
							good = true
						}
					}
				}
			}
			if !good {
				okRe = false
				whyRe = "store at " + p.Pos(st.Pos()) + " is neither the initial split nor a conserving redistribution"
			}
		}
	}
	r.Check(okRe, "C22.division", "division:share-and-remainder-only-redistributed", p.Pos(paySh.Pos()), "share*n + left stays equal to the reward; "+whyRe)
	// the per-sharder step: closure capturing both cells (or inline)
	var step *ssa.Function
	var mk *ssa.MakeClosure
	for _, a := range paySh.AnonFuncs {
		for _, b := range paySh.Blocks {
			for _, in := range b.Instrs {
				if m, ok := in.(*ssa.MakeClosure); ok && m.Fn == ssa.Value(a) {
					hasS, hasL := false, false
					for _, bd := range m.Bindings {
						if bd == ssa.Value(cS) {
							hasS = true
						}
						if bd == ssa.Value(cL) {
							hasL = true
						}
					}
					if hasS && hasL {
						step, mk = a, m
					}
				}
			}
		}
	}
	if step == nil {
		r.Fail("C22.division", "division:per-sharder-step", p.Pos(paySh.Pos()), "no per-sharder closure over the share and remainder variables (shape not recognised)")
		return
	}
	var fS, fL *ssa.FreeVar
	for i, bd := range mk.Bindings {
		if bd == ssa.Value(cS) {
			fS = step.FreeVars[i]
		}
		if bd == ssa.Value(cL) {
			fL = step.FreeVars[i]
		}
	}
	isFVLoad := func(v ssa.Value, fv *ssa.FreeVar) bool {
		ld, ok := v.(*ssa.UnOp)
		return ok && ld.Op == token.MUL && ld.X == ssa.Value(fv)
	}
	// stores in the step
	okStep := true
	whyStep := ""
	var decBlock *ssa.BasicBlock
	nDec := 0
	for _, b := range step.Blocks {
		for _, in := range b.Instrs {
			st, ok := in.(*ssa.Store)
			if !ok {
				continue
			}
			switch st.Addr {
			case ssa.Value(fS):
				okStep, whyStep = false, "the per-sharder step rewrites the share"
			case ssa.Value(fL):
				nDec++
				bo, ok := st.Val.(*ssa.BinOp)
				one := false
				if ok {
					k, isK := core.ConstInt(bo.Y)
					one = isK && k == 1
				}
				if !ok || bo.Op != token.SUB || !isFVLoad(bo.X, fL) || !one {
					okStep, whyStep = false, "remainder updated by something other than left-1"
					continue
				}
				// dominated by left > 0
				g := false
				for _, f := range CmpFacts(b) {
					if isFVLoad(f.X, fL) {
						if k, isK := core.ConstInt(f.Y); isK && ((f.Op == token.GTR && k == 0) || (f.Op == token.GEQ && k == 1) || (f.Op == token.NEQ && k == 0)) {
							g = true
						}
					}
				}
				if !g {
					okStep, whyStep = false, "left-- is not guarded by left > 0 (the counter that is decremented is not the one tested)"
				}
				decBlock = b
			}
		}
	}
	if nDec != 1 {
		okStep, whyStep = false, fmt.Sprintf("%d remainder updates in the step (want 1)", nDec)
	}
	// the paid value: AddCoin(load share, extra) with extra = phi{0, 1 on the decrement edge}
	var pay *ssa.Call
	for _, c := range methodCalls(step, "DistributeRewardsRandN") {
		pay = c
	}
	for _, c := range methodCalls(step, "DistributeRewards") {
		pay = c
	}
	if pay == nil || len(methodCalls(step, "DistributeRewardsRandN"))+len(methodCalls(step, "DistributeRewards")) != 1 {
		okStep, whyStep = false, "the step does not make exactly one reward call"
	} else if okStep {
		mv := core.CallArgs(pay.Common())[0]
		ac, idx := core.CallOf(mv)
		if ac == nil || idx != 0 || core.CalleeName(ac.Common()) != pkgCurr+".AddCoin" || !core.ErrLeadsToFailure(ac) || !isFVLoad(ac.Call.Args[0], fS) {
			okStep, whyStep = false, "paid value is not AddCoin(share, extra)#0 (checked); got "+describe(mv)
		} else {
			ph, isPhi := ac.Call.Args[1].(*ssa.Phi)
			if !isPhi || len(ph.Edges) != 2 {
				okStep, whyStep = false, "extra share is not a two-way choice"
			} else {
				for i, e := range ph.Edges {
					k, isK := core.ConstInt(e)
					pred := ph.Block().Preds[i]
					fromDec := decBlock != nil && (pred == decBlock || decBlock.Dominates(pred))
					switch {
					case isK && k == 1 && fromDec:
					case isK && k == 0 && !fromDec:
					default:
						okStep, whyStep = false, "the extra unit is not tied to the branch that decrements the remainder"
					}
				}
			}
		}
		// pays the step's own sharder, error aborting, on every success path
		rt, pth := core.BaseObject(core.Receiver(pay.Common()))
		if !(pth == ".StakePool" && core.ParamOf(rt) == step.Params[0]) {
			okStep, whyStep = false, "the reward is not credited to the visited sharder's stake pool; got "+describe(core.Receiver(pay.Common()))
		}
		if okMP, d := MustPass(p, step, pay); !okMP || !core.ErrLeadsToFailure(pay) {
			okStep, whyStep = false, "a sharder can be skipped or its credit error dropped; "+d
		}
	}
	r.Check(okStep, "C22.division", "division:step-pays-share-plus-one-while-left", p.Pos(step.Pos()), "each sharder receives share + 1 while the remainder lasts, the remainder counting down by one per extra unit; "+whyStep)
	// the loop: complete over the list, calls the step once per element
	okLoop := false
	whyLoop := "no complete loop over rewardSharders calling the step"
	for _, rl := range RangeLoops(paySh) {
		if rl.Slice != ssa.Value(list) {
			continue
		}
		for b := range rl.L.Body {
			for _, in := range b.Instrs {
				c, ok := in.(*ssa.Call)
				if !ok || c.Call.Value != ssa.Value(mk) || len(c.Call.Args) != 1 || !rl.IsElem(c.Call.Args[0]) {
					continue
				}
				okB, d := rl.BodyMustPass(p, c)
				if okB && core.ErrLeadsToFailure(c) {
					okLoop, whyLoop = true, ""
				} else {
					whyLoop = "step skipped or its error dropped; " + d
				}
			}
		}
	}
	// the closure must not be called anywhere else
	nCalls := 0
	for _, b := range paySh.Blocks {
		for _, in := range b.Instrs {
			if c, ok := in.(ssa.CallInstruction); ok && c.Common().Value == ssa.Value(mk) {
				nCalls++
			}
		}
	}
	r.Check(okLoop && nCalls == 1, "C22.division", "division:every-sharder-once", p.Pos(paySh.Pos()), fmt.Sprintf("the step runs once for every rewarded sharder, error aborting (%d call sites); %s", nCalls, whyLoop))
}

func isCellLoad(v ssa.Value, cell *ssa.Alloc) bool {
	ld, ok := v.(*ssa.UnOp)
	return ok && ld.Op == token.MUL && ld.X == ssa.Value(cell)
}

func c22Saved(r *core.Report, p *core.Prog, h *ssa.Function, minerSinks, sharderSinks []*ssa.Call, lists []ssa.Value) {
	// miner node
	for i, s := range minerSinks {
		rt, _ := core.BaseObject(core.Receiver(s.Common()))
		mn := canonObj(rt)
		isSave := func(in ssa.Instruction) bool {
			c, ok := in.(*ssa.Call)
			return ok && core.MethodName(c.Common()) == "save" && canonObj(core.Receiver(c.Common())) == mn && core.ErrLeadsToFailure(c)
		}
		ok, why := NoPathAvoidingTracked(p, h, s, isSave, mn)
		r.Check(ok, "C22.saved", fmt.Sprintf("payFees:miner-sink#%d:node-saved", i+1), p.Pos(s.Pos()), "the credited miner node is saved (error aborting) before every success exit; "+why)
	}
	// sharder nodes: a complete loop over the list saving each element
	for i, s := range sharderSinks {
		var hdr ssa.Instruction
		why := "no complete loop over the rewarded sharders saving each"
		for _, rl := range RangeLoops(h) {
			if len(lists) == 0 || rl.Slice != lists[0] {
				continue
			}
			for b := range rl.L.Body {
				for _, in := range b.Instrs {
					c, ok := in.(*ssa.Call)
					if !ok || core.MethodName(c.Common()) != "save" || !rl.IsElem(core.Receiver(c.Common())) {
						continue
					}
					if okB, d := rl.BodyMustPass(p, c); okB && core.ErrLeadsToFailure(c) {
						hdr = rl.L.Header.Instrs[0]
					} else {
						why = d
					}
				}
			}
		}
		ok := hdr != nil
		if ok {
			ok, why = NoPathAvoidingTracked(p, h, s, func(in ssa.Instruction) bool { return in == hdr }, s)
		}
		r.Check(ok, "C22.saved", fmt.Sprintf("payFees:sharder-sink#%d:nodes-saved", i+1), p.Pos(s.Pos()), "every rewarded sharder node is saved (error aborting) before every success exit; "+why)
	}
	// global node
	var gs *ssa.Call
	for _, c := range methodCalls(h, "save") {
		if strings.HasSuffix(core.RecvTypeName(c.Common()), "GlobalNode") {
			gs = c
		}
	}
	ok := gs != nil && core.ErrLeadsToFailure(gs)
	why := "no gn.save"
	if ok {
		ok, why = MustPass(p, h, gs)
	}
	r.Check(ok, "C22.saved", "payFees:global-node-saved", p.Pos(h.Pos()), "the global node (last round, reward rate) is saved on every success path; "+why)
}

// c22Once: the block-level "one built-in transaction of each name" rule.
func c22Once(r *core.Report, p *core.Prog) {
	vt := p.Func("(*" + pkgMiner + ".Chain).ValidateTransactions")
	isB := p.Func("(*" + pkgMiner + ".Chain).isBuildInTxn")
	if vt == nil || isB == nil {
		r.Unresolved("C22.once", "miner.(*Chain).ValidateTransactions / isBuildInTxn")
		return
	}
	// the table contains payFees and isBuildInTxn looks FunctionName up in it
	okTab := false
	for _, b := range isB.Blocks {
		for _, in := range b.Instrs {
			lk, ok := in.(*ssa.Lookup)
			if !ok {
				continue
			}
			_, pth := core.BaseObject(lk.Index)
			ld, isLd := lk.X.(*ssa.UnOp)
			if !strings.HasSuffix(pth, ".FunctionName") || !isLd {
				continue
			}
			g, isG := ld.X.(*ssa.Global)
			if !isG {
				continue
			}
			// initialiser of g contains "payFees"
			if init := g.Pkg.Func("init"); init != nil {
				for _, ib := range init.Blocks {
					for _, iin := range ib.Instrs {
						if mu, ok := iin.(*ssa.MapUpdate); ok {
							if s, isS := core.ConstString(mu.Key); isS && s == "payFees" {
								// the map updated is the one stored to g
								okTab = true
							}
						}
					}
				}
			}
		}
	}
	r.Check(okTab, "C22.once", "isBuildInTxn:payFees-in-table", p.Pos(isB.Pos()), "isBuildInTxn looks txn.FunctionName up in a table that contains \"payFees\"")
	// find the closure(s) of ValidateTransactions
	all := StaticClosure([]*ssa.Function{vt}, func(f *ssa.Function) bool {
		return f != vt && core.EnclosingNamed(f) != vt
	})
	// the duplicate-check function: calls isBuildInTxn, looks up and updates a map keyed by FunctionName
	var dup *ssa.Function
	var dupMap ssa.Value
	for _, f := range all {
		if len(findCallsTo(f, isB)) == 0 {
			continue
		}
		for _, b := range f.Blocks {
			for _, in := range b.Instrs {
				if mu, ok := in.(*ssa.MapUpdate); ok {
					if _, pth := core.BaseObject(mu.Key); strings.HasSuffix(pth, ".FunctionName") {
						dup, dupMap = f, mu.Map
					}
				}
			}
		}
	}
	if !r.Check(dup != nil, "C22.once", "ValidateTransactions:duplicate-check-present", p.Pos(vt.Pos()), "a function of ValidateTransactions records built-in transaction names in a map keyed by FunctionName") {
		return
	}
	// shape of dup: returns true when already present; insertion only when isBuildInTxn
	okShape := false
	for _, ret := range core.Returns(dup) {
		if k, ok := core.ResultValue(ret, 0).(*ssa.Const); ok && k.Value != nil && k.Value.ExactString() == "true" {
			// dominated by lookup-ok on the same map and key
			for _, f := range core.FactsAt(ret.Block()) {
				cv, taken := stripNot(f.Cond, f.Taken)
				if e, ok := cv.(*ssa.Extract); ok && taken && e.Index == 1 {
					if lk, ok := e.Tuple.(*ssa.Lookup); ok && sameMapValue(lk.X, dupMap) {
						if _, pth := core.BaseObject(lk.Index); strings.HasSuffix(pth, ".FunctionName") {
							okShape = true
						}
					}
				}
			}
		}
	}
	r.Check(okShape, "C22.once", "duplicate-check:true-when-name-already-recorded", p.Pos(dup.Pos()), "the check answers true exactly on the path where the name is already in the table")
	// the map and a mutex must be created outside the functions started per batch with `go`
	workers := map[*ssa.Function]bool{}
	for _, f := range all {
		for _, b := range f.Blocks {
			for _, in := range b.Instrs {
				g, ok := in.(*ssa.Go)
				if !ok {
					continue
				}
				var w *ssa.Function
				switch v := g.Call.Value.(type) {
				case *ssa.MakeClosure:
					w, _ = v.Fn.(*ssa.Function)
				case *ssa.Function:
					w = v
				}
				if w != nil && len(core.LoopsContaining(f, b)) > 0 {
					workers[w] = true
				}
			}
		}
	}
	r.Floor("C22.once", "per-batch validation workers started with go in a loop", len(workers), 1)
	// resolve where the map value originates: follow free variables up to the defining function
	origin, ofn := resolveFreeVar(dupMap, dup)
	okShared := false
	why := "the duplicate table is " + describe(dupMap)
	if mm, ok := origin.(*ssa.MakeMap); ok {
		fnOf := mm.Parent()
		inWorker := false
		for w := range workers {
			if fnOf == w || isAncestor(w, fnOf) {
				inWorker = true
			}
		}
		okShared = !inWorker && len(core.LoopsContaining(fnOf, mm.Block())) == 0
		why = "table created in " + fnOf.String()
	} else if origin != nil {
		why = fmt.Sprintf("the duplicate table comes from %T in %s (per-call table: each caller has its own)", origin, ofn)
	}
	r.Check(okShared, "C22.once", "ValidateTransactions:one-table-for-all-batches", p.Pos(dup.Pos()), "one table per block, shared by all batch workers (a per-worker table misses duplicates that fall into different batches); "+why)
	// under a lock on every path
	lw := BuildLockWorld(p, []*ssa.Function{dup})
	held := false
	if li := lw.Info[dup]; li != nil {
		held = true
		for _, b := range dup.Blocks {
			for _, in := range b.Instrs {
				switch in.(type) {
				case *ssa.MapUpdate, *ssa.Lookup:
					if len(li.AtInstr[in]) == 0 {
						held = false
					}
				}
			}
		}
	}
	r.Check(held, "C22.once", "duplicate-check:table-under-mutex", p.Pos(dup.Pos()), "the shared table is read and written only with a mutex held (check-then-insert is atomic across workers)")
	// every worker checks every transaction of its batch and a duplicate cancels
	for w := range workers {
		var dupMk ssa.Value
		// calls to dup inside the worker
		okW := false
		whyW := "worker does not call the duplicate check inside a complete loop over its batch"
		for _, rl := range RangeLoops(w) {
			if core.ParamOf(rl.Slice) == nil {
				continue
			}
			for b := range rl.L.Body {
				for _, in := range b.Instrs {
					c, ok := in.(*ssa.Call)
					if !ok {
						continue
					}
					if calleeOfValue(c.Call.Value, w) != dup {
						continue
					}
					dupMk = c.Call.Value
					if len(c.Call.Args) < 1 || !rl.IsElem(c.Call.Args[len(c.Call.Args)-1]) && !rl.IsElem(c.Call.Args[0]) {
						whyW = "the duplicate check is not applied to the visited transaction"
						continue
					}
					// result true → the worker ends with result false (does not reach the append / next iteration)
					rej := false
					for _, ref := range *c.Referrers() {
						if ifi, ok := ref.(*ssa.If); ok {
							ts := ifi.Block().Succs[0]
							rej = !reachesBlock(ts, rl.L.Header) && !reachesBlock(ts, rl.L.Header.Succs[1])
						}
					}
					// no path through the body to the next iteration (or out of the loop
					// into the code that reports success) avoiding the check; leaving the
					// worker by a direct return (cancel) reports failure
					okB, d := rl.BodyMustPassTo(p, c, func(in ssa.Instruction) bool { return in == rl.L.Header.Succs[1].Instrs[0] })
					if rej && okB {
						okW, whyW = true, ""
					} else {
						whyW = fmt.Sprintf("duplicate-rejects=%v; %s", rej, d)
					}
				}
			}
		}
		_ = dupMk
		r.Check(okW, "C22.once", "worker:"+w.Name()+":every-transaction-checked", p.Pos(w.Pos()), "every transaction of every batch goes through the duplicate check and a hit stops the worker without success; "+whyW)
	}
}

func sameMapValue(a, b ssa.Value) bool {
	if a == b || core.SameValue(a, b) {
		return true
	}
	la, ok1 := a.(*ssa.UnOp)
	lb, ok2 := b.(*ssa.UnOp)
	return ok1 && ok2 && la.X == lb.X
}

// resolveFreeVar follows a value that is (a load of) a free variable of a closure to
// the binding in the enclosing function, repeatedly; returns the defining value.
func resolveFreeVar(v ssa.Value, fn *ssa.Function) (ssa.Value, *ssa.Function) {
	for i := 0; i < 6; i++ {
		if ld, ok := v.(*ssa.UnOp); ok && ld.Op == token.MUL {
			switch x := ld.X.(type) {
			case *ssa.FreeVar:
				v = x
				continue
			case *ssa.Alloc:
				if sv := singleStoreOf(x); sv != nil {
					v = sv
					continue
				}
				return x, fn
			}
		}
		fv, ok := v.(*ssa.FreeVar)
		if !ok {
			return v, fn
		}
		parent := fn.Parent()
		if parent == nil {
			return v, fn
		}
		idx := -1
		for k, f := range fn.FreeVars {
			if f == fv {
				idx = k
			}
		}
		var bound ssa.Value
		for _, b := range parent.Blocks {
			for _, in := range b.Instrs {
				if mk, ok := in.(*ssa.MakeClosure); ok && mk.Fn == ssa.Value(fn) && idx >= 0 && idx < len(mk.Bindings) {
					bound = mk.Bindings[idx]
				}
			}
		}
		if bound == nil {
			return v, fn
		}
		v, fn = bound, parent
		if al, ok := v.(*ssa.Alloc); ok {
			if sv := singleStoreOf(al); sv != nil {
				v = sv
			} else {
				return al, fn
			}
		}
	}
	return v, fn
}

func isAncestor(anc, f *ssa.Function) bool {
	for x := f.Parent(); x != nil; x = x.Parent() {
		if x == anc {
			return true
		}
	}
	return false
}

// calleeOfValue resolves a called value (closure cell load, free variable, MakeClosure)
// to the function it denotes.
func calleeOfValue(v ssa.Value, fn *ssa.Function) *ssa.Function {
	o, _ := resolveFreeVar(v, fn)
	switch x := o.(type) {
	case *ssa.MakeClosure:
		f, _ := x.Fn.(*ssa.Function)
		return f
	case *ssa.Function:
		return x
	}
	return nil
}

func reachesBlock(from, to *ssa.BasicBlock) bool {
	seen := map[*ssa.BasicBlock]bool{}
	var walk func(b *ssa.BasicBlock) bool
	walk = func(b *ssa.BasicBlock) bool {
		if b == to {
			return true
		}
		if seen[b] {
			return false
		}
		seen[b] = true
		for _, s := range b.Succs {
			if walk(s) {
				return true
			}
		}
		return false
	}
	return walk(from)
}

// c22DivisionInline decides the obligations of c22Division when the per-sharder step is the
// body of the range loop itself (no closure): the remainder is a loop-carried phi, the share a
// loop-invariant value.
func c22DivisionInline(r *core.Report, p *core.Prog, paySh *ssa.Function, list ssa.Value, dc0 *ssa.Call, isN func(ssa.Value) bool) {
	ext := func(c *ssa.Call, i int) ssa.Value {
		for _, ref := range *c.Referrers() {
			if e, ok := ref.(*ssa.Extract); ok && e.Index == i {
				return e
			}
		}
		return nil
	}
	share0, left0 := ext(dc0, 0), ext(dc0, 1)
	var rl *RangeLoop
	for _, l := range RangeLoops(paySh) {
		l := l
		if l.Slice == list {
			rl = &l
		}
	}
	var pays []*ssa.Call
	pays = append(pays, methodCalls(paySh, "DistributeRewardsRandN")...)
	pays = append(pays, methodCalls(paySh, "DistributeRewards")...)
	if rl == nil || len(pays) != 1 || !rl.L.Body[pays[0].Block()] || share0 == nil || left0 == nil {
		r.Fail("C22.division", "division:per-sharder-step", p.Pos(paySh.Pos()), "no complete loop over the rewarded sharders making exactly one reward call per sharder (shape not recognised)")
		return
	}
	pay := pays[0]
	hdr := rl.L.Header
	okStep, whyStep := true, ""
	ac, idx := core.CallOf(core.CallArgs(pay.Common())[0])
	if ac == nil || idx != 0 || core.CalleeName(ac.Common()) != pkgCurr+".AddCoin" || !core.ErrLeadsToFailure(ac) {
		r.Fail("C22.division", "division:step-pays-share-plus-one-while-left", p.Pos(pay.Pos()), "paid value is not AddCoin(share, extra)#0 (checked); got "+describe(core.CallArgs(pay.Common())[0]))
		return
	}
	S := ac.Call.Args[0]
	if in, ok := S.(ssa.Instruction); ok && rl.L.Body[in.Block()] {
		okStep, whyStep = false, "the share changes inside the loop"
	}
	// the remainder: header phi, entry value Linit, back-edge value Lnext
	var L *ssa.Phi
	var Linit, Lnext ssa.Value
	extra, isPhi := ac.Call.Args[1].(*ssa.Phi)
	if !isPhi || len(extra.Edges) != 2 {
		okStep, whyStep = false, "extra share is not a two-way choice"
	} else {
		var decBlock *ssa.BasicBlock
		var dec *ssa.BinOp
		for i, e := range extra.Edges {
			if k, isK := core.ConstInt(e); isK && k == 1 {
				decBlock = extra.Block().Preds[i]
			}
		}
		if decBlock != nil {
			for _, in := range decBlock.Instrs {
				if bo, ok := in.(*ssa.BinOp); ok && bo.Op == token.SUB {
					if k, isK := core.ConstInt(bo.Y); isK && k == 1 {
						if ph, ok := bo.X.(*ssa.Phi); ok && ph.Block() == hdr {
							dec, L = bo, ph
						}
					}
				}
			}
		}
		if dec == nil {
			okStep, whyStep = false, "the extra unit is not tied to a branch that decrements the remainder"
		} else {
			for i, e := range L.Edges {
				if rl.L.Body[hdr.Preds[i]] {
					Lnext = e
				} else {
					Linit = e
				}
			}
			// extra = 1 exactly on the decrement edge, 0 otherwise; the carried remainder is
			// left-1 on that edge and left on the other
			carried, ok := Lnext.(*ssa.Phi)
			if !ok || carried.Block() != extra.Block() || len(carried.Edges) != 2 {
				okStep, whyStep = false, "the remainder carried to the next sharder is not chosen together with the extra unit"
			} else {
				for i := range extra.Edges {
					k, isK := core.ConstInt(extra.Edges[i])
					fromDec := extra.Block().Preds[i] == decBlock
					switch {
					case fromDec && isK && k == 1 && carried.Edges[i] == ssa.Value(dec):
					case !fromDec && isK && k == 0 && carried.Edges[i] == ssa.Value(L):
					default:
						okStep, whyStep = false, "the extra unit is not tied to the branch that decrements the remainder"
					}
				}
			}
			g := false
			for _, f := range CmpFacts(decBlock) {
				if f.X == ssa.Value(L) {
					if k, isK := core.ConstInt(f.Y); isK && ((f.Op == token.GTR && k == 0) || (f.Op == token.GEQ && k == 1) || (f.Op == token.NEQ && k == 0)) {
						g = true
					}
				}
			}
			if !g {
				okStep, whyStep = false, "left-- is not guarded by left > 0 (the counter that is decremented is not the one tested)"
			}
		}
	}
	onVisited := false
	if ld, ok := core.Receiver(pay.Common()).(*ssa.UnOp); ok {
		if fa, ok := ld.X.(*ssa.FieldAddr); ok && core.FieldOf(fa) != nil && core.FieldOf(fa).Name() == "StakePool" && rl.IsElem(fa.X) {
			onVisited = true
		}
	}
	if !onVisited {
		okStep, whyStep = false, "the reward is not credited to the visited sharder's stake pool; got "+describe(core.Receiver(pay.Common()))
	}
	r.Check(okStep, "C22.division", "division:step-pays-share-plus-one-while-left", p.Pos(pay.Pos()), "each sharder receives share + 1 while the remainder lasts, the remainder counting down by one per extra unit; "+whyStep)
	// (S, Linit) is the initial split or a conserving redistribution of it, pairwise
	okRe, whyRe := Linit != nil, "remainder variable not identified"
	if Linit != nil {
		pairOK := func(s, l ssa.Value) bool {
			if s == share0 && l == left0 {
				return true
			}
			a2, i2 := core.CallOf(s)
			le, ok := l.(*ssa.Extract)
			if a2 == nil || i2 != 0 || !ok || le.Index != 1 || core.CalleeName(a2.Common()) != pkgCurr+".AddCoin" || !core.ErrLeadsToFailure(a2) || a2.Call.Args[0] != share0 {
				return false
			}
			dc1, ok := le.Tuple.(*ssa.Call)
			if !ok || core.CalleeName(dc1.Common()) != pkgCurr+".DistributeCoin" || !core.ErrLeadsToFailure(dc1) || !isN(dc1.Call.Args[1]) || dc1.Call.Args[0] != left0 {
				return false
			}
			qe, ok := a2.Call.Args[1].(*ssa.Extract)
			return ok && qe.Index == 0 && qe.Tuple == ssa.Value(dc1)
		}
		sp, ok1 := S.(*ssa.Phi)
		lp, ok2 := Linit.(*ssa.Phi)
		switch {
		case ok1 && ok2 && sp.Block() == lp.Block() && len(sp.Edges) == len(lp.Edges):
			for i := range sp.Edges {
				if !pairOK(sp.Edges[i], lp.Edges[i]) {
					okRe, whyRe = false, "an incoming (share, remainder) pair is neither the initial split nor a conserving redistribution"
				}
			}
		case !ok1 && !ok2:
			if !pairOK(S, Linit) {
				okRe, whyRe = false, "the (share, remainder) pair used by the loop is neither the initial split nor a conserving redistribution"
			}
		default:
			okRe, whyRe = false, "share and remainder are not chosen together"
		}
	}
	r.Check(okRe, "C22.division", "division:share-and-remainder-only-redistributed", p.Pos(paySh.Pos()), "share*n + left stays equal to the reward; "+whyRe)
	okB, d := rl.BodyMustPass(p, pay)
	r.Check(okB && core.ErrLeadsToFailure(pay), "C22.division", "division:every-sharder-once", p.Pos(paySh.Pos()), "the step runs once for every rewarded sharder, error aborting (1 call sites); "+d)
}
