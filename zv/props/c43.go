package props

import (
	"fmt"
	"go/token"

	"golang.org/x/tools/go/ssa"

	"zv/core"
)

const pkgCState = "0chain.net/chaincore/chain/state"

func init() { register("C43", "proof", c43) }

// C43 Hard-fork behaviour switches exactly at the fork round.
func c43(r *core.Report, p *core.Prog, thorough bool) {
	r.Explain = "WithActivation touches the block round only through one comparison; the three orderings <,=,> of (block round, fork round) are the whole input space, so deciding the comparison shape, the callee on each edge and the never-recorded default decides the property for every fork name and round."
	r.Trusted = []string{"go/ssa construction of the function bodies", "the trie read GetTrieNode returns the recorded round or an error", "Go integer comparison semantics"}
	r.Rule("C43.cmp", "exactly one conditional on (block round, fork round), canonicalised to blockRound < forkRound")
	r.Rule("C43.edges", "true edge calls `before` and only `before`; false edge calls `after` and only `after`; neither is called anywhere else")
	r.Rule("C43.default", "GetRoundByName returns math.MaxInt64 on every error exit and the loaded round on the success exit")
	r.Rule("C43.result", "WithActivation returns the callee's error (no swallowed result) and never calls both")
	r.Rule("C43.who", "no other module function compares a block round with a round loaded from a hardfork record (HardFork.round readers / GetRoundByName callers)")

	wa := p.Func(pkgCState + ".WithActivation")
	gr := p.Func(pkgCState + ".GetRoundByName")
	if wa == nil {
		r.Unresolved("C43.cmp", pkgCState+".WithActivation")
		return
	}
	if gr == nil {
		r.Unresolved("C43.default", pkgCState+".GetRoundByName")
		return
	}
	// --- the fork round value inside WithActivation
	var forkRound ssa.Value
	for _, cs := range core.CallsIn(wa, false, core.NameIs(pkgCState+".GetRoundByName")) {
		if v, ok := cs.Instr.(*ssa.Call); ok {
			for _, ref := range *v.Referrers() {
				if e, ok := ref.(*ssa.Extract); ok && e.Index == 0 {
					forkRound = e
				}
			}
		}
	}
	if forkRound == nil {
		r.Fail("C43.cmp", "WithActivation:fork-round", p.Pos(wa.Pos()), "no call to GetRoundByName whose round result is used")
		return
	}
	// --- every comparison using forkRound
	var cmps []*ssa.BinOp
	for _, ref := range *forkRound.Referrers() {
		if b, ok := ref.(*ssa.BinOp); ok {
			cmps = append(cmps, b)
		} else if _, ok := ref.(*ssa.DebugRef); !ok {
			r.Fail("C43.cmp", "WithActivation:fork-round-other-use", p.Pos(ref.Pos()), fmt.Sprintf("fork round used by %T, not only by the comparison", ref))
		}
	}
	if len(cmps) != 1 {
		r.Fail("C43.cmp", "WithActivation:single-comparison", p.Pos(wa.Pos()), fmt.Sprintf("%d comparisons involve the fork round, want exactly 1", len(cmps)))
		return
	}
	cmp := cmps[0]
	// canonicalise to blockRound < forkRound  ⇔  pre-fork
	var blockSide ssa.Value
	preOnTrue, okShape := false, true
	switch {
	case cmp.Y == forkRound && cmp.Op == token.LSS: // b < f
		blockSide, preOnTrue = cmp.X, true
	case cmp.Y == forkRound && cmp.Op == token.GEQ: // b >= f : post on true
		blockSide, preOnTrue = cmp.X, false
	case cmp.X == forkRound && cmp.Op == token.GTR: // f > b
		blockSide, preOnTrue = cmp.Y, true
	case cmp.X == forkRound && cmp.Op == token.LEQ: // f <= b : post on true
		blockSide, preOnTrue = cmp.Y, false
	default:
		okShape = false
	}
	if !okShape {
		r.Fail("C43.cmp", "WithActivation:comparison-operator", p.Pos(cmp.Pos()), fmt.Sprintf("comparison %s is not equivalent to blockRound < forkRound (off-by-one or inverted)", cmp.String()))
		return
	}
	ap := core.AccessPath(blockSide)
	r.Check(ap == "ctx.GetBlock().UnverifiedBlockBody.Round" || ap == "ctx.GetBlock().Round", "C43.cmp", "WithActivation:block-side", p.Pos(cmp.Pos()),
		"block side of the comparison is "+ap+" (must be the executing block's round, unmodified)")
	r.Pass("C43.cmp", "WithActivation:comparison-operator", p.Pos(cmp.Pos()), "canonical form blockRound < forkRound, pre-fork on "+fmt.Sprint(preOnTrue)+" edge")
	// the If using cmp
	var ifi *ssa.If
	for _, ref := range *cmp.Referrers() {
		if i, ok := ref.(*ssa.If); ok {
			ifi = i
		} else if _, ok := ref.(*ssa.DebugRef); !ok {
			r.Fail("C43.cmp", "WithActivation:comparison-other-use", p.Pos(ref.Pos()), "comparison result used outside the branch")
		}
	}
	if ifi == nil {
		r.Fail("C43.cmp", "WithActivation:branch", p.Pos(cmp.Pos()), "comparison does not control a branch")
		return
	}
	// --- calls of the two closures
	var before, after *ssa.Parameter
	for _, prm := range wa.Params {
		switch prm.Name() {
		case "before":
			before = prm
		case "after":
			after = prm
		}
	}
	if before == nil || after == nil {
		r.Unresolved("C43.edges", "WithActivation params before/after")
		return
	}
	checkSide := func(prm *ssa.Parameter, wantTaken bool, label string) {
		n := 0
		for _, ref := range *prm.Referrers() {
			call, ok := ref.(*ssa.Call)
			if !ok || call.Call.Value != prm {
				if _, isDbg := ref.(*ssa.DebugRef); !isDbg {
					r.Fail("C43.edges", "WithActivation:"+label+"-escapes", p.Pos(ref.Pos()), fmt.Sprintf("closure %q used by %T other than a direct call", label, ref))
				}
				continue
			}
			n++
			ok2 := false
			for _, f := range core.FactsAt(call.Block()) {
				if f.If == ifi && f.Taken == wantTaken {
					ok2 = true
				}
			}
			// the call may be in the successor block itself
			if !ok2 {
				idx := 1
				if wantTaken {
					idx = 0
				}
				if ifi.Block().Succs[idx] == call.Block() && len(call.Block().Preds) == 1 {
					ok2 = true
				}
			}
			r.Check(ok2, "C43.edges", "WithActivation:"+label+"-edge", p.Pos(call.Pos()),
				fmt.Sprintf("call of %q must lie on the %v edge of the round comparison", label, wantTaken))
			// result must flow to the return
			flows := false
			for _, ret := range core.Returns(wa) {
				for _, root := range core.Slice(ret.Results[0]) {
					if root.V == call {
						flows = true
					}
				}
			}
			r.Check(flows, "C43.result", "WithActivation:"+label+"-result", p.Pos(call.Pos()), "the callee's error must be returned")
		}
		r.Check(n == 1, "C43.edges", "WithActivation:"+label+"-once", p.Pos(wa.Pos()), fmt.Sprintf("%q is called %d time(s), want 1", label, n))
	}
	checkSide(before, preOnTrue, "before")
	checkSide(after, !preOnTrue, "after")

	// --- GetRoundByName default
	nErr, nOK := 0, 0
	for _, ret := range core.Returns(gr) {
		switch core.ClassifyReturn(ret) {
		case core.ExitSuccess:
			nOK++
			ap := core.AccessPath(ret.Results[0])
			r.Check(ap == "call:NewHardFork().round", "C43.default", "GetRoundByName:success-value", p.Pos(ret.Pos()),
				"success exit returns "+ap+" (want the round field of the record just loaded)")
		default:
			nErr++
			v, ok := core.ConstInt(ret.Results[0])
			r.Check(ok && v == 9223372036854775807, "C43.default", "GetRoundByName:error-value", p.Pos(ret.Pos()),
				fmt.Sprintf("error exit returns %s (want math.MaxInt64 so a never-recorded fork compares as pre-fork for every round)", ret.Results[0]))
		}
	}
	r.Check(nErr >= 1 && nOK == 1, "C43.default", "GetRoundByName:exits", p.Pos(gr.Pos()), fmt.Sprintf("error exits=%d success exits=%d", nErr, nOK))
	// the loaded record: GetTrieNode must be called with key from GetKey of the same record
	gt := core.CallsIn(gr, false, core.MethodIs("GetTrieNode"))
	if r.Check(len(gt) == 1, "C43.default", "GetRoundByName:GetTrieNode", p.Pos(gr.Pos()), fmt.Sprintf("%d GetTrieNode calls", len(gt))) {
		a := core.CallArgs(gt[0].Common())
		k := core.AccessPath(a[0])
		v := core.AccessPath(a[1])
		r.Check(k == "call:NewHardFork().GetKey()" && v == "call:NewHardFork()", "C43.default", "GetRoundByName:key-and-target", p.Pos(gt[0].Pos()),
			"reads key "+k+" into "+v)
	}
	// a fork record that exists but cannot be read (missing trie node) must not silently
	// fall back to the pre-fork rules: the ErrNodeNotFound guard must dominate the
	// comparison, and GetRoundByName must hand the trie error through unwrapped, because
	// the guard matches it by identity (errors.Is).
	r.Rule("C43.missing", "an unreadable fork record aborts (errors.Is(err, util.ErrNodeNotFound) → return err before the comparison) and the trie error reaches that guard unwrapped")
	guardOK := false
	for _, cs := range core.CallsIn(wa, false, core.NameIs("errors.Is")) {
		call := cs.Instr.(*ssa.Call)
		if len(call.Call.Args) != 2 {
			continue
		}
		tgt := core.AccessPath(call.Call.Args[1])
		errArg := call.Call.Args[0]
		isGRErr := false
		if c2, idx := core.CallOf(errArg); c2 != nil && idx == 1 && core.CalleeName(c2.Common()) == pkgCState+".GetRoundByName" {
			isGRErr = true
		}
		if tgt != "util.ErrNodeNotFound" || !isGRErr {
			continue
		}
		for _, ref := range *call.Referrers() {
			if ifi2, ok := ref.(*ssa.If); ok {
				ts := ifi2.Block().Succs[0]
				aborts := false
				if ret, ok := ts.Instrs[len(ts.Instrs)-1].(*ssa.Return); ok && core.SameValue(ret.Results[0], errArg) {
					aborts = true
				}
				if aborts && ifi2.Block().Dominates(cmp.Block()) {
					guardOK = true
				}
			}
		}
	}
	r.Check(guardOK, "C43.missing", "WithActivation:node-not-found-guard", p.Pos(wa.Pos()), "errors.Is(err, util.ErrNodeNotFound) must return err before the round comparison")
	for _, ret := range core.Returns(gr) {
		if core.ClassifyReturn(ret) == core.ExitSuccess {
			continue
		}
		c2, _ := core.CallOf(ret.Results[1])
		r.Check(c2 != nil && core.MethodName(c2.Common()) == "GetTrieNode", "C43.missing", "GetRoundByName:error-identity", p.Pos(ret.Pos()),
			"the error exit must return the trie error itself (a re-wrapped error defeats the identity match of the guard); returns "+describe(ret.Results[1]))
	}
	// between the comparison and GetRoundByName: error classification must not return success without calling either
	for _, ret := range core.Returns(wa) {
		roots := core.RootDescs(core.Slice(ret.Results[0]))
		okr := true
		for _, d := range roots {
			if d == "const:nil" {
				okr = false
			}
		}
		r.Check(okr, "C43.result", "WithActivation:return", p.Pos(ret.Pos()), fmt.Sprintf("return value roots %v (a constant nil would report success without applying either rule set)", roots))
	}

	// --- who may call / read
	fld := p.Field(pkgCState, "HardFork", "round")
	if fld == nil {
		r.Unresolved("C43.who", pkgCState+".HardFork.round")
	} else {
		readers := map[string]bool{}
		for _, fn := range p.ModFuncs() {
			for _, b := range fn.Blocks {
				for _, in := range b.Instrs {
					if fa, ok := in.(*ssa.FieldAddr); ok && core.FieldOf(fa) == fld {
						for _, ref := range *fa.Referrers() {
							if u, ok := ref.(*ssa.UnOp); ok && u.Op == token.MUL {
								readers[core.EnclosingNamed(fn).String()] = true
							}
						}
					}
				}
			}
		}
		for fnn := range readers {
			allowed := fnn == pkgCState+".GetRoundByName" || isCodecName(fnn)
			r.Check(allowed, "C43.who", "reader:"+fnn, "", "reads HardFork.round")
		}
		r.Floor("C43.who", "HardFork.round readers", len(readers), 1)
	}
	callers := 0
	for _, fn := range p.ModFuncs() {
		for _, cs := range core.CallsIn(fn, false, core.NameIs(pkgCState+".GetRoundByName")) {
			callers++
			en := core.EnclosingNamed(fn).String()
			if en == pkgCState+".WithActivation" {
				r.Pass("C43.who", "caller:"+en, p.Pos(cs.Pos()), "the gate itself")
				continue
			}
			// any other caller must not compare the result with a block round: result may only be returned/serialised
			cmpUse := false
			if c, ok := cs.Instr.(*ssa.Call); ok {
				for _, ref := range *c.Referrers() {
					if e, ok := ref.(*ssa.Extract); ok && e.Index == 0 {
						for _, r2 := range *e.Referrers() {
							if b, ok := r2.(*ssa.BinOp); ok {
								switch b.Op {
								case token.LSS, token.GTR, token.LEQ, token.GEQ, token.EQL, token.NEQ:
									cmpUse = true
								}
							}
						}
					}
				}
			}
			r.Check(!cmpUse, "C43.who", "caller:"+en, p.Pos(cs.Pos()), "caller outside the gate must not compare the fork round itself")
		}
	}
	r.Floor("C43.who", "GetRoundByName callers", callers, 2)
	// instances of the gate in use (informational, floor guards against vacuity)
	uses := 0
	for _, fn := range p.ModFuncs() {
		uses += len(core.CallsIn(fn, false, core.NameIs(pkgCState+".WithActivation")))
	}
	r.Info["with_activation_call_sites"] = uses
	r.Floor("C43.who", "WithActivation call sites", uses, 20)
}

func isCodecName(fn string) bool {
	for _, s := range []string{".MarshalMsg", ".UnmarshalMsg", ".Msgsize", ".DecodeMsg", ".EncodeMsg"} {
		if len(fn) >= len(s) && fn[len(fn)-len(s):] == s {
			return true
		}
	}
	return false
}
