package props

import (
	"fmt"
	"go/token"
	"strings"

	"golang.org/x/tools/go/ssa"

	"zv/core"
)

func init() { register("C41", "other", c41) }

// roundOf: v is `X.Round` (a load of the Round field); returns X.
func roundOf(v ssa.Value) ssa.Value {
	ld, ok := v.(*ssa.UnOp)
	if !ok || ld.Op != token.MUL {
		return nil
	}
	fa, ok := ld.X.(*ssa.FieldAddr)
	if !ok {
		return nil
	}
	if f := core.FieldOf(fa); f == nil || f.Name() != "Round" {
		return nil
	}
	return fa.X
}

// roundGreater: a dominating fact at b states nv.Round > cur.Round.
func roundGreater(b *ssa.BasicBlock, nv, cur ssa.Value) bool {
	for _, c := range CmpFacts(b) {
		x, y := roundOf(c.X), roundOf(c.Y)
		if x == nil || y == nil {
			continue
		}
		if c.Op == token.GTR && x == nv && y == cur {
			return true
		}
		if c.Op == token.LSS && x == cur && y == nv {
			return true
		}
	}
	return false
}

// C41 LFB tickets are authentic and never move backwards.
func c41(r *core.Report, p *core.Prog, thorough bool) {
	r.Explain = "Decided: the ticket worker is the only owner of `latest`; every value that replaces it inside the worker loop flows in on an edge dominated by newValue.Round > latest.Round for that very value, and `latest` is what GetLatestLFBTicket hands out; tickets reach the worker only through AddReceivedLFBTicket, whose call sites either pass a ticket that verifyLFBTicket accepted or a locally built, unsigned round bump; verifyLFBTicket accepts only when the signer is found in the current magic block's sharder pool and that node's Verify(sign, hash) returned (true, nil); the signed hash covers round, sharder id and block hash. Not decided: signature scheme soundness; that the local bump's round is a real finalized round."
	r.Rule("C41.monotone", "StartLFBTicketWorker: each value flowing into the loop-carried `latest` other than itself is dominated by v.Round > latest.Round on the same v")
	r.Rule("C41.report", "the getLFBTicket channel is sent to only by the worker and only with `latest`; updateLFBTicket is sent to only by AddReceivedLFBTicket")
	r.Rule("C41.admission", "every AddReceivedLFBTicket call passes a ticket dominated by verifyLFBTicket(t)==true, or a fresh literal that sets only Round (local bump)")
	r.Rule("C41.immutable", "the signed fields of an LFB ticket (Round, SharderID, LFBHash, Sign) are stored only on a ticket that the storing function has just constructed: a ticket handed out by the ticket worker is shared, and rewriting its round lowers the node's latest ticket behind the worker's back")
	{
		n := 0
		for _, fname := range []string{"Round", "SharderID", "LFBHash", "Sign"} {
			f := p.Field(pkgChain, "LFBTicket", fname)
			if f == nil {
				r.Unresolved("C41.immutable", "LFBTicket."+fname)
				continue
			}
			for _, w := range core.FieldWrites(p.ModFuncs(), f) {
				if isTooling(p, w.Fn) {
					continue
				}
				n++
				key := fmt.Sprintf("write:%s:%s", core.EnclosingNamed(w.Fn).Name(), fname)
				fresh := w.Kind == "store" && w.Addr != nil && isFresh(w.Addr)
				if !fresh && w.Addr != nil {
					// `t := new(LFBTicket)` / `&LFBTicket{}` held in a local
					if al, ok := canonObj(w.Addr.X).(*ssa.Alloc); ok && al.Heap {
						fresh = true
					}
				}
				r.Check(fresh, "C41.immutable", key, p.Pos(w.Instr.Pos()), "stores to a signed ticket field happen on a freshly constructed ticket only")
			}
		}
		r.Floor("C41.immutable", "stores to signed LFB ticket fields", n, 2)
	}
	r.Rule("C41.signer", "verifyLFBTicket: non-false only if GetCurrentMagicBlock().Sharders.GetNode(t.SharderID) != nil and its Verify(t.Sign, t.Hash()) gave ok && err==nil; Hash covers Round, SharderID, LFBHash")
	w := p.Func("(*" + pkgChain + ".Chain).StartLFBTicketWorker")
	vf := p.Func("(*" + pkgChain + ".Chain).verifyLFBTicket")
	add := p.Func("(*" + pkgChain + ".Chain).AddReceivedLFBTicket")
	if w == nil || vf == nil || add == nil {
		r.Unresolved("C41.monotone", "StartLFBTicketWorker/verifyLFBTicket/AddReceivedLFBTicket")
		return
	}
	chanField := func(v ssa.Value) string {
		_, path := core.BaseObject(v)
		return path
	}
	// ---- latest: value sent on getLFBTicket in the worker
	var latest *ssa.Phi
	nSend := 0
	for _, b := range w.Blocks {
		for _, in := range b.Instrs {
			sel, ok := in.(*ssa.Select)
			if !ok {
				continue
			}
			for _, st := range sel.States {
				if st.Dir == 1 /* SendOnly */ && chanField(st.Chan) == ".getLFBTicket" {
					nSend++
					if ph, ok := st.Send.(*ssa.Phi); ok {
						latest = ph
					}
				}
			}
		}
	}
	if !r.Check(latest != nil && nSend == 1, "C41.report", "worker:sends-latest", p.Pos(w.Pos()), fmt.Sprintf("%d sends on getLFBTicket; value is the loop-carried variable", nSend)) {
		return
	}
	loops := core.LoopsContaining(w, latest.Block())
	inLoop := func(b *ssa.BasicBlock) bool {
		for _, l := range loops {
			if l.Header == latest.Block() {
				return l.Body[b]
			}
		}
		return false
	}
	nUpd := 0
	seen := map[*ssa.Phi]bool{latest: true}
	var resolve func(v ssa.Value, from *ssa.BasicBlock, via string)
	resolve = func(v ssa.Value, from *ssa.BasicBlock, via string) {
		if v == ssa.Value(latest) {
			return
		}
		if roundGreater(from, v, latest) {
			nUpd++
			r.Pass("C41.monotone", fmt.Sprintf("worker:update:%s", shortVal(v)), p.Pos(from.Instrs[len(from.Instrs)-1].Pos()), "dominated by "+shortVal(v)+".Round > latest.Round")
			return
		}
		if ph, ok := v.(*ssa.Phi); ok {
			if seen[ph] {
				return
			}
			seen[ph] = true
			for i, e := range ph.Edges {
				resolve(e, ph.Block().Preds[i], via+"→"+shortVal(ph))
			}
			return
		}
		nUpd++
		r.Fail("C41.monotone", fmt.Sprintf("worker:update:%s", shortVal(v)), p.Pos(v.Pos()), "value "+shortVal(v)+" replaces `latest` on an edge from b"+fmt.Sprint(from.Index)+" without a dominating "+shortVal(v)+".Round > latest.Round (the comparison must be on the value that is stored)")
	}
	for i, e := range latest.Edges {
		pred := latest.Block().Preds[i]
		if !inLoop(pred) {
			continue // initial value
		}
		resolve(e, pred, "latest")
	}
	r.Floor("C41.monotone", "updates of latest", nUpd, 3)
	// ---- who may send
	for _, fn := range p.ModFuncs() {
		if fn.Pkg == nil || isTooling(p, fn) {
			continue
		}
		for _, b := range fn.Blocks {
			for _, in := range b.Instrs {
				var chans []ssa.Value
				switch x := in.(type) {
				case *ssa.Send:
					chans = append(chans, x.Chan)
				case *ssa.Select:
					for _, st := range x.States {
						if st.Dir == 1 {
							chans = append(chans, st.Chan)
						}
					}
				}
				for _, ch := range chans {
					switch chanField(ch) {
					case ".getLFBTicket":
						r.Check(fn == w, "C41.report", "sender-of-getLFBTicket:"+fn.String(), p.Pos(in.Pos()), "only the worker answers ticket requests")
					case ".updateLFBTicket":
						r.Check(fn == add, "C41.report", "sender-of-updateLFBTicket:"+fn.String(), p.Pos(in.Pos()), "tickets enter the worker only through AddReceivedLFBTicket")
					}
				}
			}
		}
	}
	// ---- admission
	n := 0
	for _, fn := range p.ModFuncs() {
		if isTooling(p, fn) {
			continue
		}
		for _, cs := range core.CallsIn(fn, false, func(c *ssa.CallCommon) bool { return core.MethodName(c) == "AddReceivedLFBTicket" }) {
			n++
			tk := core.CallArgs(cs.Common())[1]
			ok, how := false, ""
			for _, f := range core.FactsAt(cs.Instr.Block()) {
				v, taken := f.Cond, f.Taken
				for {
					if u, isU := v.(*ssa.UnOp); isU && u.Op == token.NOT {
						v, taken = u.X, !taken
						continue
					}
					break
				}
				if c, isC := v.(*ssa.Call); isC && c.Common().StaticCallee() == vf && taken && core.SameValue(core.CallArgs(c.Common())[0], tk) {
					ok, how = true, "verified by verifyLFBTicket"
				}
			}
			if !ok {
				if al, isAl := tk.(*ssa.Alloc); isAl {
					for _, lit := range literalsOf(fn, pkgChain+".LFBTicket") {
						if lit.Alloc == al && len(lit.Fields) == 1 && lit.Fields["Round"] != nil && allocOnlyLiteral(al) {
							ok, how = true, "local unsigned round bump (literal sets only Round)"
						}
					}
				}
			}
			if how == "" {
				how = "ticket neither verified nor a local round-only literal"
			}
			r.Check(ok, "C41.admission", "AddReceivedLFBTicket-site:"+core.EnclosingNamed(fn).String(), p.Pos(cs.Pos()), how)
		}
	}
	r.Floor("C41.admission", "AddReceivedLFBTicket call sites", n, 3)
	// ---- signer
	vs := methodCalls(vf, "Verify")
	if r.Check(len(vs) == 1, "C41.signer", "verifyLFBTicket:verify-call", p.Pos(vf.Pos()), fmt.Sprintf("%d Verify calls", len(vs))) {
		v := vs[0]
		recv, _ := core.BaseObject(core.Receiver(v.Common()))
		okPool := true
		d := "signer not resolved through a node pool"
		// every non-nil value the signer can be — directly, or as a result of the package's
		// lookup helper (its parameters bound to the call) — is a GetNode on the current
		// magic block's Sharders pool for the ticket's SharderID
		nLeaves := 0
		signerLeaves := []ssa.Value{recv}
		if c0, _ := core.CallOf(recv); c0 == nil || core.MethodName(c0.Common()) != "GetNode" {
			signerLeaves = ValueLeaves(recv, 1)
		}
		for _, lv := range signerLeaves {
			if core.IsNilConst(lv) {
				continue
			}
			nLeaves++
			inner, bind := core.Unbind(lv)
			gn, _ := core.CallOf(inner)
			if gn != nil && core.MethodName(gn.Common()) == "GetNode" && strings.HasSuffix(core.RecvTypeName(gn.Common()), "node.Pool") {
				pool, path := core.BaseObject(core.Receiver(gn.Common()))
				mbc, _ := core.CallOf(pool)
				d = "pool=" + path
				if mbc != nil {
					d += " of " + core.MethodName(mbc.Common()) + "()"
				}
				idv := core.CallArgs(gn.Common())[0]
				if bind != nil {
					idv = core.BindValue(idv, bind)
				}
				_, idp := core.BaseObject(idv)
				if !(path == ".Sharders" && mbc != nil && core.MethodName(mbc.Common()) == "GetCurrentMagicBlock" && idp == ".SharderID") {
					okPool = false
				}
			} else {
				okPool = false
				if gn != nil {
					d = "signer resolved by " + core.CalleeName(gn.Common()) + " (any registered node, not the current magic block's sharders)"
				}
			}
		}
		okPool = okPool && nLeaves > 0
		r.Check(okPool, "C41.signer", "verifyLFBTicket:signer-is-current-sharder", p.Pos(v.Pos()), d)
		a := core.CallArgs(v.Common())
		_, sp := core.BaseObject(a[0])
		hc, _ := core.CallOf(a[1])
		r.Check(sp == ".Sign" && hc != nil && core.MethodName(hc.Common()) == "Hash" && core.ParamOf(core.Receiver(hc.Common())) != nil, "C41.signer", "verifyLFBTicket:verify-args", p.Pos(v.Pos()), "Verify(t.Sign, t.Hash())")
		gn, _ := core.CallOf(recv) // the lookup (GetNode, or the helper wrapping it) whose result is the signer
		r.Check(gn != nil && core.KnownNil(core.FactsAt(v.Block()), ssa.Value(gn)) == -1, "C41.signer", "verifyLFBTicket:unknown-signer-rejected", p.Pos(v.Pos()), "Verify runs only when the signer was found")
		// result discipline
		ev := core.ErrResult(v)
		var okv ssa.Value
		for _, ref := range *v.Referrers() {
			if e, isE := ref.(*ssa.Extract); isE && e.Index == 0 {
				okv = e
			}
		}
		for _, ret := range core.Returns(vf) {
			var leaves func(x ssa.Value, from *ssa.BasicBlock, d int)
			leaves = func(x ssa.Value, from *ssa.BasicBlock, d int) {
				if c, isC := x.(*ssa.Const); isC {
					if c.Value != nil && c.Value.String() == "false" {
						return
					}
					r.Fail("C41.signer", fmt.Sprintf("verifyLFBTicket:result@b%d", from.Index), p.Pos(ret.Pos()), "constant true result")
					return
				}
				if ph, isP := x.(*ssa.Phi); isP && d < 4 {
					for i, e := range ph.Edges {
						leaves(e, ph.Block().Preds[i], d+1)
					}
					return
				}
				good := okv != nil && x == okv && ev != nil && core.KnownNil(append(core.FactsAt(from), edgeFact(from, ret.Block(), x)...), ev) == 1
				if !good && okv != nil && x == okv && ev != nil {
					// the edge itself may carry the err == nil fact (short-circuit &&)
					good = core.KnownNil(core.FactsAt(from), ev) == 1 || blockTestsNilTo(from, ev)
				}
				r.Check(good, "C41.signer", fmt.Sprintf("verifyLFBTicket:result@b%d", from.Index), p.Pos(ret.Pos()), "accepts exactly Verify's ok under err == nil")
			}
			leaves(ret.Results[0], ret.Block(), 0)
		}
	}
	hd := p.Func("(*" + pkgChain + ".LFBTicket).hashData")
	if hd == nil {
		r.Unresolved("C41.signer", "LFBTicket.hashData")
	} else {
		fr := fieldsRead(hd)
		for _, f := range []string{"Round", "SharderID", "LFBHash"} {
			r.Check(fr[f], "C41.signer", "hashData-covers:"+f, p.Pos(hd.Pos()), "signed digest covers "+f)
		}
		h := p.Func("(*" + pkgChain + ".LFBTicket).Hash")
		r.Check(h != nil && len(methodCalls(h, "hashData")) == 1 && len(findCalls(h, "0chain.net/core/encryption.Hash")) == 1, "C41.signer", "Hash-of-hashData", p.Pos(hd.Pos()), "Hash() = encryption.Hash(hashData())")
	}
}

// edgeFact is a placeholder for edge-specific facts (none beyond dominators here).
func edgeFact(from, to *ssa.BasicBlock, x ssa.Value) []core.Fact { return nil }

// blockTestsNilTo: `from` is the block reached only on the nil edge of a test of ev
// (from's single predecessor ends in `if ev == nil` / `if ev != nil`).
func blockTestsNilTo(from *ssa.BasicBlock, ev ssa.Value) bool {
	for _, br := range core.NilBranches(ev) {
		nilSucc := br.If.Block().Succs[1-br.NonNilSucc]
		if nilSucc == from && len(from.Preds) == 1 {
			return true
		}
	}
	return false
}

// allocOnlyLiteral: the alloc is used only to initialise fields and as a call argument.
func allocOnlyLiteral(al *ssa.Alloc) bool {
	for _, ref := range *al.Referrers() {
		switch ref.(type) {
		case *ssa.FieldAddr, *ssa.Call, *ssa.DebugRef:
		default:
			return false
		}
	}
	return true
}

func shortVal(v ssa.Value) string {
	switch x := v.(type) {
	case *ssa.Phi:
		return x.Comment + "(" + x.Name() + ")"
	case *ssa.Call:
		return core.MethodName(x.Common()) + "()"
	}
	return v.Name()
}
