package props

import (
	"go/token"
	"sort"
	"strings"

	"golang.org/x/tools/go/ssa"

	"zv/core"
)

// TransferSite is one AddTransfer call with the resolved from/to/amount values.
type TransferSite struct {
	Site     core.CallSite
	Fn       *ssa.Function // function in which From/To/Amount are expressed
	From     ssa.Value
	To       ssa.Value
	Amount   ssa.Value
	Resolved bool
	Via      string // "" direct, or the wrapper chain
}

// resolveTransferObj resolves a *state.Transfer value into its three components:
// state.NewTransfer(from,to,amt), &state.Transfer{...} literal, or a local variable
// holding one of those.
func resolveTransferObj(v ssa.Value) (from, to, amt ssa.Value, ok bool) {
	seen := map[ssa.Value]bool{}
	for v != nil && !seen[v] {
		seen[v] = true
		switch x := v.(type) {
		case *ssa.Call:
			if core.CalleeName(x.Common()) == pkgState+".NewTransfer" && len(x.Call.Args) == 3 {
				return x.Call.Args[0], x.Call.Args[1], x.Call.Args[2], true
			}
			// wrapper returning a transfer: look into the callee (single return)
			if cal := core.StaticCallee(x.Common()); cal != nil && cal.Blocks != nil {
				rets := core.Returns(cal)
				if len(rets) >= 1 {
					for _, r := range rets {
						if len(r.Results) == 0 || core.IsNilConst(r.Results[0]) {
							continue
						}
						f, t, a, ok2 := resolveTransferObj(r.Results[0])
						if ok2 {
							// express in callee terms; map parameters back to arguments
							return mapParam(f, cal, x), mapParam(t, cal, x), mapParam(a, cal, x), true
						}
					}
				}
			}
			return nil, nil, nil, false
		case *ssa.Extract:
			if c, ok := x.Tuple.(*ssa.Call); ok && x.Index == 0 {
				v = c
				continue
			}
			return nil, nil, nil, false
		case *ssa.Alloc:
			// composite literal: field stores
			var f, t, a ssa.Value
			for _, ref := range *x.Referrers() {
				fa, ok := ref.(*ssa.FieldAddr)
				if !ok {
					continue
				}
				fld := core.FieldOf(fa)
				for _, r2 := range *fa.Referrers() {
					if st, ok := r2.(*ssa.Store); ok && st.Addr == fa && fld != nil {
						switch fld.Name() {
						case "ClientID":
							f = st.Val
						case "ToClientID":
							t = st.Val
						case "Amount":
							a = st.Val
						}
					}
				}
			}
			if f != nil && t != nil && a != nil {
				return f, t, a, true
			}
			// a local variable of pointer type holding the transfer
			if sv := singleStoreOf(x); sv != nil {
				v = sv
				continue
			}
			return nil, nil, nil, false
		case *ssa.UnOp:
			if x.Op == token.MUL {
				if al, ok := x.X.(*ssa.Alloc); ok {
					if sv := singleStoreOf(al); sv != nil {
						v = sv
						continue
					}
					if sv := core.LastStoreBefore(al, x); sv != nil {
						v = sv
						continue
					}
				}
			}
			return nil, nil, nil, false
		case *ssa.Phi:
			// all edges must resolve to the same shape; take the first that resolves
			for _, e := range x.Edges {
				if f, t, a, ok := resolveTransferObj(e); ok {
					return f, t, a, true
				}
			}
			return nil, nil, nil, false
		default:
			return nil, nil, nil, false
		}
	}
	return nil, nil, nil, false
}

func singleStoreOf(a *ssa.Alloc) ssa.Value {
	var val ssa.Value
	n := 0
	for _, r := range *a.Referrers() {
		if s, ok := r.(*ssa.Store); ok && s.Addr == a {
			val = s.Val
			n++
		}
	}
	if n == 1 {
		return val
	}
	return nil
}

// mapParam: if v (in callee terms) is a parameter of callee, return the corresponding
// argument at the call; otherwise v unchanged.
func mapParam(v ssa.Value, callee *ssa.Function, call *ssa.Call) ssa.Value {
	if prm, ok := v.(*ssa.Parameter); ok {
		for i, q := range callee.Params {
			if q == prm && i < len(call.Call.Args) {
				return call.Call.Args[i]
			}
		}
	}
	return v
}

// TransferSites enumerates AddTransfer calls in fns.
func TransferSites(fns []*ssa.Function) []TransferSite {
	var out []TransferSite
	for _, fn := range fns {
		for _, cs := range core.CallsIn(fn, false, func(c *ssa.CallCommon) bool { return isSCtxCall(c, "AddTransfer") }) {
			args := core.CallArgs(cs.Common())
			ts := TransferSite{Site: cs, Fn: fn}
			if len(args) == 1 {
				ts.From, ts.To, ts.Amount, ts.Resolved = resolveTransferObj(args[0])
			}
			out = append(out, ts)
		}
	}
	sort.Slice(out, func(i, j int) bool { return out[i].Site.Pos() < out[j].Site.Pos() })
	return out
}

// describe renders a value's provenance as sorted root descriptions.
func describe(v ssa.Value) string {
	if v == nil {
		return "?"
	}
	if ap := core.AccessPath(v); ap != "" && !strings.HasPrefix(ap, "local:") {
		return ap
	}
	if _, bind := core.Unbind(v); bind != nil {
		// a helper's value: render it in the caller's terms when its root is a caller value
		root, path := core.BaseObject(v)
		if _, still := root.(*core.Bound); !still && root != nil {
			return describe(root) + path
		}
		return strings.Join(core.RootDescs(SliceB(v)), "|")
	}
	return strings.Join(core.RootDescs(core.Slice(v)), "|")
}
