package props

import (
	"fmt"
	"go/token"
	"go/types"
	"sort"
	"strings"

	"golang.org/x/tools/go/ssa"

	"zv/core"
)

const (
	pkgChain   = "0chain.net/chaincore/chain"
	pkgState   = "0chain.net/chaincore/state"
	pkgTxn     = "0chain.net/chaincore/transaction"
	pkgBlock   = "0chain.net/chaincore/block"
	pkgCurr    = "github.com/0chain/common/core/currency"
	pkgUtil    = "github.com/0chain/common/core/util"
	ifaceSCtx  = "0chain.net/chaincore/chain/state.StateContextI"
	typeSCtx   = "0chain.net/chaincore/chain/state.StateContext"
	fnTransfer = "(*0chain.net/chaincore/chain.Chain).transferAmount"
)

func init() { register("C01", "proof", c01) }

// isFresh reports whether the struct whose field is addressed was allocated in the
// same function (composite literal or new): writes to it are construction, not update.
func isFresh(fa *ssa.FieldAddr) bool {
	v := fa.X
	for {
		switch x := v.(type) {
		case *ssa.Alloc:
			return true
		case *ssa.FieldAddr:
			v = x.X
			continue
		}
		return false
	}
}

// isSCtxCall matches a method call on StateContextI / *StateContext by bare name.
func isSCtxCall(c *ssa.CallCommon, name string) bool {
	if core.MethodName(c) != name {
		return false
	}
	rt := core.RecvTypeName(c)
	if rt == ifaceSCtx || rt == typeSCtx {
		return true
	}
	// interfaces embedding StateContextI (e.g. contract-local views) and mocks excluded
	if c.IsInvoke() {
		return strings.HasSuffix(rt, "StateContextI") || strings.HasSuffix(rt, "BalancesI")
	}
	return false
}

func inPkgPrefix(fn *ssa.Function, prefix string) bool {
	return fn.Pkg != nil && strings.HasPrefix(fn.Pkg.Pkg.Path(), prefix)
}

func c01(r *core.Report, p *core.Prog, thorough bool) {
	r.Explain = "Tokens only move: the only code that changes an existing account balance is the transfer primitive, which subtracts and adds the same value with checked arithmetic and persists both sides or fails; contracts cannot reach the client-state writers, no mint/burn sink exists, the commit happens only after every queued transfer succeeded, and genesis panics unless the distributed total equals the configured supply. By induction over transactions the sum of balances stays the genesis total."
	r.Trusted = []string{"MPT library github.com/0chain/common/core/util (Insert/GetNodeValue/MergeMPTChanges)", "currency.AddCoin/MinusCoin return an error on overflow/underflow", "SHA3 pre-image resistance: contract keys (hashed) never collide with client-id paths", "go/ssa construction; VTA call graph for the unreachability of mintAmount", "the genesis file's numbers (guarded at run time by the panic of obligation C01.7)"}
	r.Rule("C01.1", "every store to state.State.Balance on an existing (not freshly constructed) object lies in the transfer primitive, the dead mint primitive, or the codec/clone of State")
	r.Rule("C01.2", "who-may-call: SetClientState / SetStateContext / mutating methods of GetState() have no caller in smartcontract/...; client-state trie leaves (util.Path of a raw id) are inserted only by StateContext.SetClientState (+ tooling unreachable from the node binaries)")
	r.Rule("C01.3", "transferAmount: same SSA amount subtracted (MinusCoin) and added (AddCoin), both errors returned, both SetClientState on every success path, from==to rejected first, insufficient balance rejected")
	r.Rule("C01.4", "updateState: no success exit after a failed transfer; MergeMPTChanges(clientState) is the only commit and every queued transfer loop precedes it")
	r.Rule("C01.5", "balance-affecting sinks of StateContextI are exactly AddTransfer/AddSignedTransfer (Transfer objects); NewMint/NewBurn have no caller; mintAmount is unreachable")
	r.Rule("C01.6", "contract trie keys go through encryption.Hash; raw-id paths only in client-state accessors")
	r.Rule("C01.7", "genesis: distributed total compared with config.MaxTokenSupply, mismatch panics; initial client tokens are subtracted from the contract's tokens")

	mod := p.ModFuncs()
	// ---------------- C01.1
	bal := p.Field(pkgState, "State", "Balance")
	if bal == nil {
		r.Unresolved("C01.1", pkgState+".State.Balance")
		return
	}
	allowedWriter := map[string]string{
		fnTransfer: "the transfer primitive",
		"(*0chain.net/chaincore/chain.Chain).mintAmount": "dead mint primitive (must be unreachable, C01.5)",
		"(*0chain.net/chaincore/state.State).Decode":     "codec",
		"(*0chain.net/chaincore/state.State).Clone":      "copy",
	}
	nW := 0
	for _, w := range core.FieldWrites(mod, bal) {
		nW++
		fn := core.EnclosingNamed(w.Fn).String()
		key := fmt.Sprintf("writer:%s:%s", fn, w.Kind)
		if w.Kind == "store" && isFresh(w.Addr) {
			r.Pass("C01.1", key+":fresh", p.Pos(w.Instr.Pos()), "construction of a fresh State (persisting it is governed by C01.2)")
			continue
		}
		if why, ok := allowedWriter[fn]; ok {
			r.Pass("C01.1", key, p.Pos(w.Instr.Pos()), why)
			continue
		}
		if isTooling(p, w.Fn) {
			r.Pass("C01.1", key+":tooling", p.Pos(w.Instr.Pos()), "function is not reachable from the miner or sharder binary (benchmark/tooling)")
			continue
		}
		// a helper extracted from the transfer primitive: does exactly one checked debit/credit of
		// its arguments and is called from nowhere but the primitive
		if h := core.EnclosingNamed(w.Fn); h.Pkg != nil && h.Pkg.Pkg.Path() == pkgChain {
			if kind, _, _ := c01BalanceHelper(p, h, bal); kind != "" {
				private := true
				nCalls := 0
				for _, caller := range mod {
					for range core.CallsIn(caller, true, func(cc *ssa.CallCommon) bool { return cc.StaticCallee() == h }) {
						nCalls++
						if core.EnclosingNamed(caller).String() != fnTransfer {
							private = false
						}
					}
				}
				if private && nCalls > 0 {
					r.Pass("C01.1", key+":primitive-helper", p.Pos(w.Instr.Pos()), "checked "+kind+" helper called only by the transfer primitive")
					continue
				}
			}
		}
		r.Fail("C01.1", key, p.Pos(w.Instr.Pos()), "store to State.Balance of an existing object outside the transfer primitive")
	}
	r.Floor("C01.1", "State.Balance writers", nW, 4)

	// ---------------- C01.2
	clientWriters := []string{"SetClientState", "SetStateContext"}
	nCS := 0
	for _, fn := range mod {
		for _, name := range clientWriters {
			for _, cs := range core.CallsIn(fn, false, func(c *ssa.CallCommon) bool { return isSCtxCall(c, name) }) {
				nCS++
				en := core.EnclosingNamed(fn)
				ok := !inPkgPrefix(en, "0chain.net/smartcontract/") || isTooling(p, fn)
				r.Check(ok, "C01.2", "caller-of-"+name+":"+en.String(), p.Pos(cs.Pos()), "contracts must not write client state directly")
			}
		}
	}
	r.Floor("C01.2", "SetClientState/SetStateContext callers", nCS, 8)
	// GetState() uses in contracts: only read-only methods
	roMPT := map[string]bool{"GetVersion": true, "GetRoot": true, "GetNodeValue": true, "GetNodeValueRaw": true, "GetChangeCount": true, "GetMissingNodeKeys": true, "Cache": true}
	nGS := 0
	for _, fn := range mod {
		if !inPkgPrefix(fn, "0chain.net/smartcontract/") {
			continue
		}
		for _, cs := range core.CallsIn(fn, false, func(c *ssa.CallCommon) bool { return isSCtxCall(c, "GetState") }) {
			nGS++
			call, _ := cs.Instr.(*ssa.Call)
			if call == nil {
				r.Fail("C01.2", "GetState-use:"+core.EnclosingNamed(fn).String(), p.Pos(cs.Pos()), "GetState() in go/defer")
				continue
			}
			for _, ref := range *call.Referrers() {
				switch u := ref.(type) {
				case ssa.CallInstruction:
					m := core.MethodName(u.Common())
					isRecv := u.Common().IsInvoke() && u.Common().Value == call
					r.Check(isRecv && roMPT[m], "C01.2", "GetState-use:"+core.EnclosingNamed(fn).String()+":"+m, p.Pos(u.Pos()),
						"contracts may use the state trie only through read-only methods")
				case *ssa.DebugRef:
				default:
					r.Fail("C01.2", "GetState-use:"+core.EnclosingNamed(fn).String()+":escape", p.Pos(ref.Pos()), fmt.Sprintf("trie handle escapes via %T", ref))
				}
			}
		}
	}
	r.Info["contract_GetState_sites"] = nGS
	// trie inserts with raw-id paths
	nIns := 0
	for _, fn := range mod {
		for _, cs := range core.CallsIn(fn, false, func(c *ssa.CallCommon) bool {
			m := core.MethodName(c)
			return (m == "Insert" || m == "Delete") && strings.Contains(core.RecvTypeName(c), "MerklePatriciaTrie")
		}) {
			args := core.CallArgs(cs.Common())
			if len(args) == 0 {
				continue
			}
			pathCall, _ := core.CallOf(args[0])
			rawID := false
			hashed := false
			if pathCall != nil && core.CalleeName(pathCall.Common()) == pkgUtil+".Path" {
				inner, _ := core.CallOf(pathCall.Call.Args[0])
				if inner != nil && core.CalleeName(inner.Common()) == "0chain.net/core/encryption.Hash" {
					hashed = true
				} else {
					rawID = true
				}
			}
			nIns++
			en := core.EnclosingNamed(fn)
			key := "trie-" + core.MethodName(cs.Common()) + ":" + en.String()
			switch {
			case hashed:
				r.Check(inPkgPrefix(en, pkgChain+"/state") || isTooling(p, fn), "C01.6", key, p.Pos(cs.Pos()), "hashed contract key written outside StateContext")
			case rawID:
				ok := en.String() == "(*"+typeSCtx+").SetClientState" || isTooling(p, fn)
				r.Check(ok, "C01.2", key, p.Pos(cs.Pos()), "client-state leaf written (raw id path); allowed: StateContext.SetClientState, or tooling unreachable from miner/sharder main")
			default:
				// key computed elsewhere: must not be in a contract or chain execution code
				ok := !inPkgPrefix(en, "0chain.net/smartcontract/") || isTooling(p, fn)
				r.Check(ok, "C01.2", key, p.Pos(cs.Pos()), "direct trie write with a computed path inside contract code")
			}
		}
	}
	r.Floor("C01.2", "direct trie Insert/Delete sites", nIns, 3)

	// ---------------- C01.3 transferAmount
	ta := p.Func(fnTransfer)
	if ta == nil {
		r.Unresolved("C01.3", fnTransfer)
	} else {
		c01Transfer(r, p, ta, "C01.3")
	}

	// ---------------- C01.4 updateState
	us := p.Func("(*" + pkgChain + ".Chain).updateState")
	if us == nil {
		r.Unresolved("C01.4", "updateState")
	} else {
		c01UpdateState(r, p, us, "C01.4")
	}

	// ---------------- C01.5 sinks
	if it := p.Type(pkgChain+"/state", "StateContextI"); it == nil {
		r.Unresolved("C01.5", ifaceSCtx)
	} else {
		ms := ifaceMethodNames(it)
		balanceSinks := []string{}
		for _, m := range ms {
			lm := strings.ToLower(m)
			if strings.Contains(lm, "transfer") || strings.Contains(lm, "mint") || strings.Contains(lm, "burn") || strings.Contains(lm, "balance") || strings.Contains(lm, "clientstate") {
				balanceSinks = append(balanceSinks, m)
			}
		}
		sort.Strings(balanceSinks)
		want := "AddSignedTransfer,AddTransfer,GetClientBalance,GetClientState,GetSignedTransfers,GetTransfers,SetClientState"
		r.Check(strings.Join(balanceSinks, ",") == want, "C01.5", "StateContextI:balance-methods", "", "balance-related methods: "+strings.Join(balanceSinks, ",")+" (a new sink type must be analysed before it is trusted)")
	}
	for _, dead := range []string{pkgState + ".NewMint", "(*" + pkgChain + ".Chain).mintAmount", "(*" + pkgChain + ".Chain).mintAmountWithAssert"} {
		f := p.Func(dead)
		if f == nil {
			r.Pass("C01.5", "absent:"+dead, "", "function does not exist")
			continue
		}
		n := 0
		var where string
		for _, fn := range mod {
			for _, cs := range core.CallsIn(fn, false, core.NameIs(dead)) {
				if core.EnclosingNamed(fn).String() == "(*"+pkgChain+".Chain).mintAmountWithAssert" && dead == "(*"+pkgChain+".Chain).mintAmount" {
					continue // dead helper calling dead primitive
				}
				n++
				where = p.Pos(cs.Pos())
			}
		}
		// also no address-taken use
		for _, fn := range mod {
			for _, b := range fn.Blocks {
				for _, in := range b.Instrs {
					if _, isCall := in.(ssa.CallInstruction); isCall {
						continue
					}
					for _, op := range in.Operands(nil) {
						if op != nil && *op == ssa.Value(f) {
							n++
							where = p.Pos(in.Pos())
						}
					}
				}
			}
		}
		r.Check(n == 0, "C01.5", "no-caller:"+dead, where, fmt.Sprintf("%d use(s) of a token-creating primitive", n))
	}
	// every AddTransfer argument is a *state.Transfer built by NewTransfer or a literal (type-level: enforced by signature)
	nAT := 0
	for _, fn := range mod {
		nAT += len(core.CallsIn(fn, false, func(c *ssa.CallCommon) bool { return isSCtxCall(c, "AddTransfer") }))
	}
	r.Info["AddTransfer_sites"] = nAT
	r.Floor("C01.5", "AddTransfer sites", nAT, 15)

	// ---------------- C01.7 genesis
	gb := p.Func("(*" + pkgChain + ".Chain).mustInitGBState")
	if gb == nil {
		r.Unresolved("C01.7", "mustInitGBState")
	} else {
		c01Genesis(r, p, gb)
	}
}

func ifaceMethodNames(n *types.Named) []string {
	it, ok := n.Underlying().(*types.Interface)
	if !ok {
		return nil
	}
	var out []string
	for i := 0; i < it.NumMethods(); i++ {
		out = append(out, it.Method(i).Name())
	}
	return out
}

func c01Transfer(r *core.Report, p *core.Prog, ta *ssa.Function, rule string) {
	var amount *ssa.Parameter
	for _, prm := range ta.Params {
		if prm.Name() == "amount" {
			amount = prm
		}
	}
	if amount == nil {
		r.Unresolved(rule, "transferAmount.amount")
		return
	}
	c01CanonicalIDs(r, p, ta, rule)
	// the debit and the credit: a checked MinusCoin / AddCoin on a loaded state's Balance whose
	// result is stored back, written inline or in a helper of the package that does exactly that
	type balOp struct {
		at   *ssa.Call // instruction in transferAmount
		kind string
		obj  ssa.Value // state object (in transferAmount)
		amt  ssa.Value
		how  string
	}
	bal := p.Field(pkgState, "State", "Balance")
	var ops []balOp
	stores := core.FieldWrites([]*ssa.Function{ta}, bal)
	usedStore := map[ssa.Instruction]bool{}
	for _, b := range ta.Blocks {
		for _, in := range b.Instrs {
			c, ok := in.(*ssa.Call)
			if !ok {
				continue
			}
			switch core.CalleeName(c.Common()) {
			case pkgCurr + ".MinusCoin", pkgCurr + ".AddCoin":
				kind := "debit"
				if core.CalleeName(c.Common()) == pkgCurr+".AddCoin" {
					kind = "credit"
				}
				obj, path := core.BaseObject(c.Call.Args[0])
				if path != ".Balance" {
					r.Fail(rule, "transferAmount:operands:"+kind, p.Pos(c.Pos()), "checked arithmetic on something that is not a loaded state's Balance: "+describe(c.Call.Args[0]))
					continue
				}
				// its result is what is stored into that object's Balance
				okStore := false
				for _, st := range stores {
					cc, idx := core.CallOf(st.Val)
					so, _ := core.BaseObject(st.Addr)
					if st.Kind == "store" && cc == c && idx == 0 && so == obj {
						okStore = true
						usedStore[st.Instr] = true
					}
				}
				r.Check(okStore, rule, "transferAmount:stores:"+kind, p.Pos(c.Pos()), "the checked result is stored into the same state's Balance")
				ops = append(ops, balOp{c, kind, obj, c.Call.Args[1], "inline"})
			default:
				h := c.Call.StaticCallee()
				if h == nil || h.Pkg == nil || h.Pkg.Pkg.Path() != pkgChain || h.Blocks == nil {
					continue
				}
				kind, si, ai := c01BalanceHelper(p, h, bal)
				if kind == "" || si >= len(c.Call.Args) || ai >= len(c.Call.Args) {
					continue
				}
				ops = append(ops, balOp{c, kind, c.Call.Args[si], c.Call.Args[ai], "helper " + h.Name()})
			}
		}
	}
	var m, a *ssa.Call
	var mObj, aObj ssa.Value
	nDeb, nCred := 0, 0
	for _, op := range ops {
		if op.kind == "debit" {
			nDeb++
			m, mObj = op.at, op.obj
		} else {
			nCred++
			a, aObj = op.at, op.obj
		}
	}
	if !r.Check(nDeb == 1 && nCred == 1, rule, "transferAmount:one-debit-one-credit", p.Pos(ta.Pos()), fmt.Sprintf("debits=%d credits=%d (checked MinusCoin/AddCoin on a state's Balance, inline or in a helper)", nDeb, nCred)) {
		return
	}
	okAmt := true
	for _, op := range ops {
		if op.amt != ssa.Value(amount) {
			okAmt = false
		}
	}
	r.Check(okAmt, rule, "transferAmount:same-amount", p.Pos(m.Pos()),
		"the debit and the credit must both use the parameter `amount` itself")
	r.Check(mObj != aObj, rule, "transferAmount:operands", p.Pos(m.Pos()),
		fmt.Sprintf("debit on %s, credit on %s (must be two distinct loaded states)", describe(mObj), describe(aObj)))
	okStores := true
	for _, st := range stores {
		if !usedStore[st.Instr] {
			okStores = false
		}
	}
	r.Check(okStores, rule, "transferAmount:stores", p.Pos(ta.Pos()), fmt.Sprintf("%d Balance stores in transferAmount; each stores the checked result of its MinusCoin/AddCoin", len(stores)))
	// errors of both operations are returned: on the err!=nil edge there is a failure return
	for _, c := range []*ssa.Call{m, a} {
		r.Check(core.ErrLeadsToFailure(c), rule, "transferAmount:err-returned:"+core.MethodName(c.Common()), p.Pos(c.Pos()), "arithmetic error must lead to a failure exit")
	}
	// both SetClientState on every success path
	scs := core.CallsIn(ta, false, func(c *ssa.CallCommon) bool { return isSCtxCall(c, "SetClientState") })
	r.Check(len(scs) == 2, rule, "transferAmount:two-persists", p.Pos(ta.Pos()), fmt.Sprintf("%d SetClientState calls", len(scs)))
	for i, cs := range scs {
		call := cs.Instr.(*ssa.Call)
		r.Check(core.ErrLeadsToFailure(call), rule, fmt.Sprintf("transferAmount:persist-err:%d", i), p.Pos(cs.Pos()), "persist error must lead to a failure exit")
	}
	// success exits: amount==0 early return (no effect) or after both persists
	for _, ret := range core.SuccessExits(ta) {
		// path from entry to this return avoiding a SetClientState
		for i, cs := range scs {
			target := cs.Instr
			path, _, found := core.PathQuery{Fn: ta, Barrier: func(in ssa.Instruction) bool { return in == target },
				EdgeOK: core.FeasibleEdge,
				Target: func(in ssa.Instruction) bool { return in == ssa.Instruction(ret) }}.Find()
			if !found {
				r.Pass(rule, fmt.Sprintf("transferAmount:must-persist:%d:ret@b%d", i, ret.Block().Index), p.Pos(ret.Pos()), "every path to this success exit persists side "+fmt.Sprint(i))
				continue
			}
			// allowed only if the path performs no Balance store (amount==0 early exit)
			storeOnPath := false
			for _, b := range path {
				for _, s := range stores {
					if s.Instr.Block() == b {
						storeOnPath = true
					}
				}
			}
			zeroExit := false
			for _, f := range core.FactsAt(ret.Block()) {
				if b, ok := f.Cond.(*ssa.BinOp); ok && f.Taken && (b.X == amount || b.Y == amount) {
					zeroExit = true
				}
			}
			r.Check(!storeOnPath && zeroExit, rule, fmt.Sprintf("transferAmount:must-persist:%d:ret@b%d", i, ret.Block().Index), p.Pos(ret.Pos()),
				"success exit reachable without persisting: "+p.PathString(path))
		}
	}
	// guards before the first store: from==to rejected, insufficient rejected
	firstStore := m
	facts := core.FactsAt(firstStore.Block())
	var haveNeq, haveSuff bool
	for _, f := range facts {
		b, ok := f.Cond.(*ssa.BinOp)
		if !ok {
			continue
		}
		x, y := core.AccessPath(b.X), core.AccessPath(b.Y)
		if (x == "fromClient" && y == "toClient" || x == "toClient" && y == "fromClient") && ((b.Op.String() == "==" && !f.Taken) || (b.Op.String() == "!=" && f.Taken)) {
			haveNeq = true
		}
		xo, xp := core.BaseObject(b.X)
		yo, yp := core.BaseObject(b.Y)
		if xo == mObj && xp == ".Balance" && b.Y == amount && ((b.Op.String() == "<" && !f.Taken) || (b.Op.String() == ">=" && f.Taken)) {
			haveSuff = true
		}
		if yo == mObj && yp == ".Balance" && b.X == amount && ((b.Op.String() == ">" && !f.Taken) || (b.Op.String() == "<=" && f.Taken)) {
			haveSuff = true
		}
	}
	if !haveNeq {
		haveNeq = c01GuardedByHelper(ta, firstStore, func(g c01Guard, args []ssa.Value) bool {
			for _, pr := range g.neq {
				x, y := core.AccessPath(args[pr[0]]), core.AccessPath(args[pr[1]])
				if (x == "fromClient" && y == "toClient") || (x == "toClient" && y == "fromClient") {
					return true
				}
			}
			return false
		})
	}
	r.Check(haveNeq, rule, "transferAmount:from!=to", p.Pos(m.Pos()), "self-transfer must be rejected before any balance is touched (a self transfer would credit a stale copy)")
	r.Check(haveSuff, rule, "transferAmount:sufficient", p.Pos(m.Pos()), "debit must be dominated by the fall-through of `balance < amount → reject` on the debited state")
	// debit side is loaded for fromClient, credit for toClient, persisted under the same ids
	loadedFor := map[ssa.Value]string{}
	for _, g := range core.CallsIn(ta, false, func(c *ssa.CallCommon) bool { return isSCtxCall(c, "GetClientState") }) {
		call := g.Instr.(*ssa.Call)
		for _, ref := range *call.Referrers() {
			if e, ok := ref.(*ssa.Extract); ok && e.Index == 0 {
				loadedFor[e] = core.AccessPath(core.CallArgs(g.Common())[0])
			}
		}
	}
	r.Check(loadedFor[mObj] == "fromClient" && loadedFor[aObj] == "toClient", rule, "transferAmount:sides", p.Pos(m.Pos()),
		fmt.Sprintf("debited state loaded for %q, credited state loaded for %q", loadedFor[mObj], loadedFor[aObj]))
	for _, cs := range scs {
		a := core.CallArgs(cs.Common())
		id := core.AccessPath(a[0])
		obj, _ := core.BaseObject(a[1])
		r.Check(loadedFor[obj] == id && id != "", rule, "transferAmount:persist-key:"+id, p.Pos(cs.Pos()), fmt.Sprintf("object loaded for %q is saved under %q", loadedFor[obj], id))
	}
}

func c01UpdateState(r *core.Report, p *core.Prog, us *ssa.Function, rule string) {
	merges := core.CallsIn(us, false, core.MethodIs("MergeMPTChanges"))
	if !r.Check(len(merges) == 1, rule, "updateState:single-commit", p.Pos(us.Pos()), fmt.Sprintf("%d MergeMPTChanges calls", len(merges))) {
		return
	}
	merge := merges[0].Instr.(*ssa.Call)
	r.Check(core.ErrLeadsToFailure(merge), rule, "updateState:commit-err", p.Pos(merge.Pos()), "commit error must fail the transaction")
	// receiver is the block state parameter, argument the txn trie variable
	r.Check(core.AccessPath(merge.Call.Value) == "bState", rule, "updateState:commit-target", p.Pos(merge.Pos()), "commit target is "+core.AccessPath(merge.Call.Value))
	tws := core.CallsIn(us, false, core.NameIs("(*"+pkgChain+".Chain).transferAmountWithAssert"))
	r.Check(len(tws) == 2, rule, "updateState:transfer-loops", p.Pos(us.Pos()), fmt.Sprintf("%d transferAmountWithAssert sites (queued transfers, signed transfers)", len(tws)))
	for i, cs := range tws {
		call := cs.Instr.(*ssa.Call)
		r.Check(core.ErrLeadsToFailure(call), rule, fmt.Sprintf("updateState:transfer-err:%d", i), p.Pos(cs.Pos()), "a failed transfer must fail the whole transaction (no commit)")
		// arguments come from the queued transfer object
		a := core.CallArgs(cs.Common())
		desc := []string{}
		for _, v := range a[1:] {
			desc = append(desc, core.AccessPath(v))
		}
		okArgs := len(desc) == 3 && strings.HasSuffix(desc[0], ".ClientID") && strings.HasSuffix(desc[1], ".ToClientID") && strings.HasSuffix(desc[2], ".Amount")
		r.Check(okArgs, rule, fmt.Sprintf("updateState:transfer-args:%d", i), p.Pos(cs.Pos()), "applies "+strings.Join(desc, ", "))
		// the merge must not be reachable before the loop: loop header dominates merge
		r.Check(cs.Instr.Block().Dominates(merge.Block()) || loopHeaderOf(cs.Instr.Block()).Dominates(merge.Block()), rule, fmt.Sprintf("updateState:transfer-before-commit:%d", i), p.Pos(cs.Pos()), "transfer loop must precede the commit on every path")
	}
	// the loops iterate sctx.GetTransfers() / GetSignedTransfers()
	for _, name := range []string{"GetTransfers", "GetSignedTransfers"} {
		n := len(core.CallsIn(us, false, core.MethodIs(name)))
		r.Check(n == 1, rule, "updateState:iterates:"+name, p.Pos(us.Pos()), fmt.Sprintf("%d calls", n))
	}
	// transferAmountWithAssert passes through transferAmount with its own parameters
	tw := p.Func("(*" + pkgChain + ".Chain).transferAmountWithAssert")
	if tw == nil {
		r.Unresolved(rule, "transferAmountWithAssert")
		return
	}
	inner := core.CallsIn(tw, false, core.NameIs(fnTransfer))
	if r.Check(len(inner) == 1, rule, "transferAmountWithAssert:calls-primitive", p.Pos(tw.Pos()), fmt.Sprintf("%d calls", len(inner))) {
		a := core.CallArgs(inner[0].Common())
		d := []string{}
		for _, v := range a {
			d = append(d, core.AccessPath(v))
		}
		r.Check(strings.Join(d, ",") == "sctx,fromClient,toClient,amount", rule, "transferAmountWithAssert:args", p.Pos(inner[0].Pos()), strings.Join(d, ","))
		r.Check(core.ErrLeadsToFailure(inner[0].Instr.(*ssa.Call)), rule, "transferAmountWithAssert:err", p.Pos(inner[0].Pos()), "primitive's error must be returned")
	}
	// who calls the primitive: only the assert wrapper
	n := 0
	for _, fn := range p.ModFuncs() {
		for _, cs := range core.CallsIn(fn, false, core.NameIs(fnTransfer)) {
			n++
			r.Check(core.EnclosingNamed(fn) == tw, rule, "transferAmount-caller:"+core.EnclosingNamed(fn).String(), p.Pos(cs.Pos()), "primitive called outside the asserted wrapper")
		}
	}
	for _, fn := range p.ModFuncs() {
		for _, cs := range core.CallsIn(fn, false, core.NameIs(tw.String())) {
			r.Check(core.EnclosingNamed(fn) == us, rule, "transferAmountWithAssert-caller:"+core.EnclosingNamed(fn).String(), p.Pos(cs.Pos()), "wrapper called outside updateState")
		}
	}
}

// loopHeaderOf returns the nearest dominator that is a loop header (has a back edge),
// or b itself.
func loopHeaderOf(b *ssa.BasicBlock) *ssa.BasicBlock {
	for d := b; d != nil; d = d.Idom() {
		for _, pr := range d.Preds {
			if d.Dominates(pr) {
				return d
			}
		}
	}
	return b
}

func c01Genesis(r *core.Report, p *core.Prog, gb *ssa.Function) {
	const rule7 = "C01.7"
	// comparison scTotalTokens != config.MaxTokenSupply guarding a panic
	found := false
	for _, b := range gb.Blocks {
		for _, in := range b.Instrs {
			bo, ok := in.(*ssa.BinOp)
			if !ok || (bo.Op.String() != "!=" && bo.Op.String() != "==") {
				continue
			}
			isMax := func(v ssa.Value) bool {
				for _, rt := range core.Slice(v) {
					if n, ok := core.ConstInt(rt.V); ok && rt.Kind == "const" && n != 0 {
						// value of config.MaxTokenSupply
						if o := p.Object("0chain.net/core/config", "MaxTokenSupply"); o != nil {
							return true
						}
					}
				}
				return false
			}
			if !(isMax(bo.X) || isMax(bo.Y)) {
				continue
			}
			// mismatch edge must panic
			for _, ref := range *bo.Referrers() {
				if ifi, ok := ref.(*ssa.If); ok {
					idx := 0
					if bo.Op.String() == "==" {
						idx = 1
					}
					if core.FailsOnly(ifi.Block().Succs[idx], map[*ssa.BasicBlock]bool{}) && core.BlockPanics(ifi.Block().Succs[idx]) {
						found = true
					}
				}
			}
		}
	}
	r.Check(found, "C01.7", "mustInitGBState:supply-guard", p.Pos(gb.Pos()), "the summed genesis tokens must be compared with config.MaxTokenSupply and a mismatch must panic")
	// sum accumulates v.Tokens via AddCoin; initial client tokens are removed from the contract's with MinusCoin
	nAdd := len(core.CallsIn(gb, false, core.NameIs(pkgCurr+".AddCoin")))
	nMinus := len(core.CallsIn(gb, false, core.NameIs(pkgCurr+".MinusCoin")))
	r.Check(nAdd >= 2 && nMinus >= 1, "C01.7", "mustInitGBState:checked-sums", p.Pos(gb.Pos()), fmt.Sprintf("AddCoin=%d MinusCoin=%d", nAdd, nMinus))
	for i, cs := range core.CallsIn(gb, false, core.NameIs(pkgCurr+".MinusCoin")) {
		a := cs.Common().Args
		// the amount taken off a wallet must be what was handed to *that wallet's* clients:
		// the accumulator may be carried round the inner (client) loop but not round the
		// wallet loop that contains this subtraction.
		carried := ""
		outer := map[*ssa.BasicBlock]bool{}
		for _, l := range core.LoopsContaining(gb, cs.Instr.Block()) {
			outer[l.Header] = true
		}
		seenV := map[ssa.Value]bool{}
		var walk func(v ssa.Value, d int)
		walk = func(v ssa.Value, d int) {
			if v == nil || seenV[v] || d > 12 {
				return
			}
			seenV[v] = true
			switch x := v.(type) {
			case *ssa.Phi:
				if outer[x.Block()] {
					carried = fmt.Sprintf("value is carried across iterations of the wallet loop (phi in loop header b%d)", x.Block().Index)
				}
				for _, e := range x.Edges {
					walk(e, d+1)
				}
			case *ssa.Extract:
				if c, ok := x.Tuple.(*ssa.Call); ok && core.CalleeName(c.Common()) == pkgCurr+".AddCoin" {
					walk(c.Call.Args[0], d+1)
				}
			case *ssa.UnOp:
				if al, ok := x.X.(*ssa.Alloc); ok {
					// a variable spilled to memory: every store must lie inside the wallet loop body
					for _, sv := range core.StoresTo(al) {
						walk(sv, d+1)
					}
					for _, ref := range *al.Referrers() {
						if st, ok := ref.(*ssa.Store); ok && st.Addr == ssa.Value(al) {
							in := false
							for _, l := range core.LoopsContaining(gb, cs.Instr.Block()) {
								if l.Body[st.Block()] {
									in = true
								}
							}
							_ = in
						}
					}
					if len(core.LoopsContaining(gb, al.Block())) == 0 && len(outer) > 0 {
						carried = "accumulator variable is declared outside the wallet loop and never reset inside it"
						for _, ref := range *al.Referrers() {
							if st, ok := ref.(*ssa.Store); ok && st.Addr == ssa.Value(al) {
								if k, isK := core.ConstInt(st.Val); isK && k == 0 {
									for _, l := range core.LoopsContaining(gb, cs.Instr.Block()) {
										if l.Body[st.Block()] {
											carried = ""
										}
									}
								}
							}
						}
					}
				}
			}
		}
		walk(a[1], 0)
		r.Check(carried == "" && len(outer) >= 1, rule7, fmt.Sprintf("mustInitGBState:per-wallet-accumulator:%d", i), p.Pos(cs.Pos()),
			"the tokens subtracted from a wallet must be accumulated for that wallet only; "+carried)
		r.Check(strings.HasSuffix(core.AccessPath(a[0]), ".Tokens"), "C01.7", fmt.Sprintf("mustInitGBState:minus:%d", i), p.Pos(cs.Pos()),
			"client allocations are subtracted from "+core.AccessPath(a[0]))
	}
}

// isTooling: the function cannot run inside a miner or sharder: its package is not
// linked into either binary, or it is unreachable from their entry points (VTA).
func isTooling(p *core.Prog, fn *ssa.Function) bool {
	if !p.InNode(fn) {
		return true
	}
	return !p.NodeReachable()[fn]
}

// c01CanonicalIDs: the trie's branch nodes fold the case of hex digits (read from the
// dependency's own code: FullNode.index accepts both 'a'-'f' and 'A'-'F'), so two ids that
// differ only in case address one account. The transfer primitive's `from != to` guard
// compares raw strings; it is alias-proof only if ids that are not in canonical lower
// case are refused (or folded) before any state is read.
func c01CanonicalIDs(r *core.Report, p *core.Prog, ta *ssa.Function, rule string) {
	folds := false
	var idxFn *ssa.Function
	for _, name := range []string{"(*github.com/0chain/common/core/util.FullNode).index"} {
		if f := p.Func(name); f != nil {
			idxFn = f
		}
	}
	if idxFn == nil {
		r.Unresolved(rule, "FullNode.index of github.com/0chain/common (is the trie case-folding?)")
		return
	}
	lower, upper := false, false
	for _, b := range idxFn.Blocks {
		for _, in := range b.Instrs {
			if bo, ok := in.(*ssa.BinOp); ok {
				for _, v := range []ssa.Value{bo.X, bo.Y} {
					if k, ok := core.ConstInt(v); ok {
						if k == 97 || k == 102 {
							lower = true
						}
						if k == 65 || k == 70 {
							upper = true
						}
					}
				}
			}
		}
	}
	folds = lower && upper
	if !folds {
		r.Pass(rule, "transferAmount:ids-cannot-alias", p.Pos(idxFn.Pos()), "the trie does not fold hex case: distinct id strings are distinct paths")
		return
	}
	var ids []*ssa.Parameter
	for _, prm := range ta.Params {
		if strings.Contains(strings.ToLower(prm.Name()), "client") && prm.Type().Underlying().String() == "string" {
			ids = append(ids, prm)
		}
	}
	if !r.Check(len(ids) == 2, rule, "transferAmount:id-params", p.Pos(ta.Pos()), fmt.Sprintf("%d client id parameters", len(ids))) {
		return
	}
	// first state access
	reads := core.CallsIn(ta, false, func(c *ssa.CallCommon) bool {
		return isSCtxCall(c, "GetClientState") || isSCtxCall(c, "SetClientState")
	})
	if !r.Check(len(reads) > 0, rule, "transferAmount:state-access", p.Pos(ta.Pos()), "client state accessed") {
		return
	}
	for _, id := range ids {
		okAll := true
		why := ""
		for _, rd := range reads {
			blk := rd.Instr.Block()
			ok := false
			for _, f := range CmpFacts(blk) {
				isLower := func(v ssa.Value) bool {
					c, isC := v.(*ssa.Call)
					return isC && core.CalleeName(c.Common()) == "strings.ToLower" && c.Call.Args[0] == ssa.Value(id)
				}
				if f.Op == token.EQL && ((f.X == ssa.Value(id) && isLower(f.Y)) || (f.Y == ssa.Value(id) && isLower(f.X))) {
					ok = true
				}
			}
			if !ok {
				ok = c01GuardedByHelper(ta, rd.Instr, func(g c01Guard, args []ssa.Value) bool {
					for _, ci := range g.canon {
						if ci < len(args) && args[ci] == ssa.Value(id) {
							return true
						}
					}
					return false
				})
			}
			if !ok {
				okAll = false
				why = "state access at " + p.Pos(rd.Pos()) + " is not dominated by " + id.Name() + " == strings.ToLower(" + id.Name() + ")"
			}
		}
		r.Check(okAll, rule, "transferAmount:canonical-id:"+id.Name(), p.Pos(ta.Pos()), "the trie folds hex case (FullNode.index), so only canonical lower-case ids may reach the account state; "+why)
	}
}

// c01BalanceHelper: h does exactly `x, err := MinusCoin|AddCoin(s.Balance, a); if err != nil { return err }; s.Balance = x`
// on two of its parameters: returns the kind and the parameter positions.
func c01BalanceHelper(p *core.Prog, h *ssa.Function, bal *types.Var) (kind string, si, ai int) {
	var op *ssa.Call
	n := 0
	for _, b := range h.Blocks {
		for _, in := range b.Instrs {
			c, ok := in.(*ssa.Call)
			if !ok {
				continue
			}
			switch core.CalleeName(c.Common()) {
			case pkgCurr + ".MinusCoin":
				op, kind = c, "debit"
				n++
			case pkgCurr + ".AddCoin":
				op, kind = c, "credit"
				n++
			}
		}
	}
	if n != 1 {
		return "", 0, 0
	}
	obj, path := core.BaseObject(op.Call.Args[0])
	sp, ap := core.ParamOf(obj), core.ParamOf(op.Call.Args[1])
	if path != ".Balance" || sp == nil || ap == nil || op.Call.Args[1] != ssa.Value(ap) {
		return "", 0, 0
	}
	ws := core.FieldWrites([]*ssa.Function{h}, bal)
	if len(ws) != 1 || ws[0].Kind != "store" {
		return "", 0, 0
	}
	cc, idx := core.CallOf(ws[0].Val)
	wo, _ := core.BaseObject(ws[0].Addr)
	if cc != op || idx != 0 || wo != obj || !core.ErrLeadsToFailure(op) {
		return "", 0, 0
	}
	if ok, _ := MustPass(p, h, ws[0].Instr); !ok {
		return "", 0, 0
	}
	si, ai = -1, -1
	for i, prm := range h.Params {
		if prm == sp {
			si = i
		}
		if prm == ap {
			ai = i
		}
	}
	if si < 0 || ai < 0 {
		return "", 0, 0
	}
	return kind, si, ai
}

// c01Guard: what a guard helper guarantees about its string parameters when it returns nil.
type c01Guard struct {
	neq   [][2]int // parameters known different
	canon []int    // parameters known equal to their strings.ToLower
}

func c01GuardSummary(h *ssa.Function) c01Guard {
	var g c01Guard
	exits := core.SuccessExits(h)
	if len(exits) == 0 {
		return g
	}
	idxOf := func(v ssa.Value) int {
		for i, prm := range h.Params {
			if v == ssa.Value(prm) {
				return i
			}
		}
		return -1
	}
	first := true
	for _, ret := range exits {
		var neq [][2]int
		var canon []int
		for _, f := range CmpFacts(ret.Block()) {
			x, y := idxOf(f.X), idxOf(f.Y)
			if f.Op == token.NEQ && x >= 0 && y >= 0 {
				neq = append(neq, [2]int{x, y})
			}
			if f.Op == token.EQL {
				for _, pr := range [][2]ssa.Value{{f.X, f.Y}, {f.Y, f.X}} {
					pi := idxOf(pr[0])
					c, ok := pr[1].(*ssa.Call)
					if pi >= 0 && ok && core.CalleeName(c.Common()) == "strings.ToLower" && c.Call.Args[0] == pr[0] {
						canon = append(canon, pi)
					}
				}
			}
		}
		if first {
			g.neq, g.canon, first = neq, canon, false
			continue
		}
		// intersect
		var n2 [][2]int
		for _, a := range g.neq {
			for _, b := range neq {
				if a == b || (a[0] == b[1] && a[1] == b[0]) {
					n2 = append(n2, a)
				}
			}
		}
		var c2 []int
		for _, a := range g.canon {
			for _, b := range canon {
				if a == b {
					c2 = append(c2, a)
				}
			}
		}
		g.neq, g.canon = n2, c2
	}
	return g
}

// c01GuardedByHelper: some error-checked call to a package helper dominates `at` and its
// summary satisfies pred for the actual arguments.
func c01GuardedByHelper(fn *ssa.Function, at ssa.Instruction, pred func(g c01Guard, args []ssa.Value) bool) bool {
	for _, b := range fn.Blocks {
		for _, in := range b.Instrs {
			c, ok := in.(*ssa.Call)
			if !ok {
				continue
			}
			h := c.Call.StaticCallee()
			if h == nil || h.Pkg == nil || h.Pkg != fn.Pkg || h.Blocks == nil || !core.ErrLeadsToFailure(c) {
				continue
			}
			if !(c.Block().Dominates(at.Block()) && (c.Block() != at.Block() || core.Reaches(c, at))) {
				continue
			}
			// the point must lie on the call's success side
			if core.KnownNil(core.FactsAt(at.Block()), core.ErrResult(c)) != 1 {
				continue
			}
			if pred(c01GuardSummary(h), c.Call.Args) {
				return true
			}
		}
	}
	return false
}
