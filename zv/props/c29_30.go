package props

import (
	"fmt"
	"go/token"
	"go/types"
	"strings"

	"golang.org/x/tools/go/ssa"

	"zv/core"
)

func init() {
	register("C29", "other", c29)
	register("C30", "other", c30)
}

// hashableCoverage extends HashCoverage: when a first-party value is turned into a
// util.Hashable (MakeInterface) inside fn's call tree, the fields its GetHash /
// GetHashBytes read are covered too (the merkle tree calls them).
func hashableCoverage(p *core.Prog, fn *ssa.Function) map[string]bool {
	cov := HashCoverage(p, fn)
	seen := map[*ssa.Function]bool{}
	var walk func(f *ssa.Function, d int)
	walk = func(f *ssa.Function, d int) {
		if f == nil || f.Blocks == nil || seen[f] || d > 5 {
			return
		}
		seen[f] = true
		for _, b := range f.Blocks {
			for _, in := range b.Instrs {
				switch x := in.(type) {
				case *ssa.MakeInterface:
					if !strings.HasSuffix(core.NamedName(x.Type()), "util.Hashable") {
						continue
					}
					for _, mn := range []string{"GetHash", "GetHashBytes"} {
						ms := p.SSA.MethodSets.MethodSet(x.X.Type())
						if sel := ms.Lookup(nil, mn); sel != nil {
							if m := p.SSA.MethodValue(sel); m != nil {
								for k := range HashCoverage(p, m) {
									cov[k] = true
								}
							}
						} else {
							for i := 0; i < ms.Len(); i++ {
								if ms.At(i).Obj().Name() == mn {
									if m := p.SSA.MethodValue(ms.At(i)); m != nil {
										for k := range HashCoverage(p, m) {
											cov[k] = true
										}
									}
								}
							}
						}
					}
				case ssa.CallInstruction:
					if cal := core.StaticCallee(x.Common()); cal != nil && cal.Pkg != nil && core.IsModule(cal.Pkg.Pkg.Path()) {
						walk(cal, d+1)
					}
				}
			}
		}
	}
	walk(fn, 0)
	return cov
}

// lenCompare finds comparisons between len(x.A) and len(x.B) in fn and its static
// callees (depth 2) and returns them.
func lenCompares(p *core.Prog, fn *ssa.Function, fieldA, fieldB string) []*ssa.BinOp {
	var out []*ssa.BinOp
	seen := map[*ssa.Function]bool{}
	isLenOf := func(v ssa.Value, field string) bool {
		c, ok := v.(*ssa.Call)
		if !ok {
			return false
		}
		if b, ok := c.Call.Value.(*ssa.Builtin); !ok || b.Name() != "len" {
			return false
		}
		return strings.HasSuffix(describe(c.Call.Args[0]), "."+field)
	}
	var walk func(f *ssa.Function, d int)
	walk = func(f *ssa.Function, d int) {
		if f == nil || f.Blocks == nil || seen[f] || d > 2 {
			return
		}
		seen[f] = true
		for _, b := range f.Blocks {
			for _, in := range b.Instrs {
				switch x := in.(type) {
				case *ssa.BinOp:
					if (isLenOf(x.X, fieldA) && isLenOf(x.Y, fieldB)) || (isLenOf(x.X, fieldB) && isLenOf(x.Y, fieldA)) {
						out = append(out, x)
					}
				case ssa.CallInstruction:
					if cal := core.StaticCallee(x.Common()); cal != nil && cal.Pkg == fn.Pkg {
						walk(cal, d+1)
					}
				}
			}
		}
	}
	walk(fn, 0)
	return out
}

// C29 Block hashes commit to block contents.
func c29(r *core.Report, p *core.Prog, thorough bool) {
	r.Explain = "Decided: which block fields the hash data reads (every effect-relevant field named by the property must be read), that the hash is the hash of exactly that data, and that Block.Validate accepts only when the recomputed hash equals the stored one, the generator's signature over that hash verifies (both results used) and the duplicate-transaction comparison is an inequality test. Not decided: collision resistance."
	r.Rule("C29.coverage", "Block.getHashData reads generator, parent, round, random seed, transactions (hash) and their outputs (output hash), resulting state hash, magic block hash, creation date")
	r.Rule("C29.hash-shape", "ComputeHash = encryption.Hash(getHashData()); HashBlock stores ComputeHash()")
	r.Rule("C29.validate", "Block.Validate: success exits are dominated by hash equality on ComputeHash(), by miner.Verify(Signature, Hash) with error and false both rejecting, and the duplicate-transaction test is len(Txns) != len(TxnsMap) → reject")
	gh := p.Func("(*" + pkgBlock + ".Block).getHashData")
	ch := p.Func("(*" + pkgBlock + ".Block).ComputeHash")
	hb := p.Func("(*" + pkgBlock + ".Block).HashBlock")
	va := p.Func("(*" + pkgBlock + ".Block).Validate")
	if gh == nil || ch == nil || hb == nil || va == nil {
		r.Unresolved("C29.coverage", "Block.getHashData/ComputeHash/HashBlock/Validate")
		return
	}
	cov := hashableCoverage(p, gh)
	want := []struct{ key, what string }{
		{"MinerID", "generator"},
		{"PrevHash", "parent"},
		{"Round", "round"},
		{"RoundRandomSeed", "random seed"},
		{"CreationDate", "creation date"},
		{"Txns", "transactions"},
		{"HashIDField.Hash", "transaction hash / magic block hash"},
		{"OutputHash", "transaction outputs"},
		{"ClientStateHash", "resulting state"},
		{"MagicBlock", "magic block"},
		{"StateChangesCount", "state change count"},
	}
	for _, w := range want {
		r.Check(covHas(cov, w.key), "C29.coverage", "Block.hash-reads:"+w.key, p.Pos(gh.Pos()), w.what+" must influence the block hash")
	}
	r.Info["hash_coverage_fields"] = len(cov)
	unconditionalSinks(r, p, gh, "C29.coverage", "Block.getHashData")
	// hash shape
	okShape := false
	for _, ret := range core.Returns(ch) {
		if c, _ := core.CallOf(ret.Results[0]); c != nil && core.CalleeName(c.Common()) == "0chain.net/core/encryption.Hash" {
			if c2, _ := core.CallOf(c.Call.Args[0]); c2 != nil {
				if c2.Common().StaticCallee() == gh {
					okShape = true
				}
			} else if mi, ok := c.Call.Args[0].(*ssa.MakeInterface); ok {
				if c2, _ := core.CallOf(mi.X); c2 != nil && c2.Common().StaticCallee() == gh {
					okShape = true
				}
			}
		}
	}
	r.Check(okShape, "C29.hash-shape", "ComputeHash:hash-of-hash-data", p.Pos(ch.Pos()), "ComputeHash must return encryption.Hash(b.getHashData())")
	hf := p.Field("0chain.net/core/datastore", "HashIDField", "Hash")
	okStore := false
	if hf != nil {
		for _, w := range core.FieldWrites([]*ssa.Function{hb}, hf) {
			if c, _ := core.CallOf(w.Val); c != nil && c.Common().StaticCallee() == ch {
				okStore = true
			}
		}
	}
	r.Check(okStore, "C29.hash-shape", "HashBlock:stores-computed", p.Pos(hb.Pos()), "HashBlock must store ComputeHash()")
	// Validate
	var hashIf *ssa.If
	for _, c := range findCalls(va, ch.String()) {
		for _, a := range core.ValueAliases(c) {
			for _, ref := range *a.Referrers() {
				bo, ok := ref.(*ssa.BinOp)
				if !ok || (bo.Op != token.NEQ && bo.Op != token.EQL) {
					continue
				}
				other := bo.X
				if bo.X == a {
					other = bo.Y
				}
				if !strings.HasSuffix(describe(other), ".Hash") {
					continue
				}
				for _, r2 := range *bo.Referrers() {
					if ifi, ok := r2.(*ssa.If); ok {
						idx := 0
						if bo.Op == token.EQL {
							idx = 1
						}
						if core.FailsOnly(ifi.Block().Succs[idx], map[*ssa.BasicBlock]bool{}) {
							hashIf = ifi
						}
					}
				}
			}
		}
	}
	r.Check(hashIf != nil, "C29.validate", "Validate:hash-equality", p.Pos(va.Pos()), "stored hash must be compared with ComputeHash() and a mismatch rejected")
	vcs := core.CallsIn(va, false, core.MethodIs("Verify"))
	var vcall *ssa.Call
	if r.Check(len(vcs) == 1, "C29.validate", "Validate:signature-call", p.Pos(va.Pos()), fmt.Sprintf("%d Verify calls", len(vcs))) {
		vcall = vcs[0].Instr.(*ssa.Call)
		a := core.CallArgs(vcall.Common())
		r.Check(strings.HasSuffix(describe(a[0]), ".Signature") && strings.HasSuffix(describe(a[1]), ".Hash"), "C29.validate", "Validate:signature-args", p.Pos(vcall.Pos()), "verifies "+describe(a[0])+" over "+describe(a[1]))
		r.Check(core.ErrLeadsToFailure(vcall), "C29.validate", "Validate:signature-err", p.Pos(vcall.Pos()), "verification error rejects")
		r.Check(boolResultRejects(vcall), "C29.validate", "Validate:signature-false", p.Pos(vcall.Pos()), "a false verification result rejects")
		recv := describe(core.Receiver(vcall.Common()))
		r.Check(strings.Contains(recv, "GetNode"), "C29.validate", "Validate:signer-is-generator", p.Pos(vcall.Pos()), "signature verified with the key of "+recv+" (node looked up by b.MinerID)")
	}
	for _, ret := range core.SuccessExits(va) {
		ok1 := hashIf != nil && hashIf.Block().Dominates(ret.Block())
		ok2 := vcall != nil && vcall.Block().Dominates(ret.Block())
		r.Check(ok1 && ok2, "C29.validate", fmt.Sprintf("Validate:accept-needs-hash+signature@b%d", ret.Block().Index), p.Pos(ret.Pos()), "every accepting exit must follow the hash comparison and the signature verification")
	}
	cmps := lenCompares(p, va, "Txns", "TxnsMap")
	if r.Check(len(cmps) == 1, "C29.validate", "Validate:duplicate-check", p.Pos(va.Pos()), fmt.Sprintf("%d comparisons of len(Txns) with len(TxnsMap)", len(cmps))) {
		bo := cmps[0]
		r.Check(bo.Op == token.NEQ || bo.Op == token.EQL, "C29.validate", "Validate:duplicate-check-operator", posOf(p, bo),
			"a repeated transaction makes the hash-keyed map smaller than the list; only an (in)equality test detects every mismatch, found `"+bo.Op.String()+"`")
		rejects := false
		for _, ref := range *bo.Referrers() {
			switch u := ref.(type) {
			case *ssa.If:
				idx := 0
				if bo.Op == token.EQL {
					idx = 1
				}
				rejects = core.FailsOnly(u.Block().Succs[idx], map[*ssa.BasicBlock]bool{})
			case *ssa.Return, *ssa.Phi:
				// helper returning the comparison: the caller must reject on true
				fn := bo.Parent()
				for _, c := range findCalls(va, fn.String()) {
					for _, r2 := range *c.Referrers() {
						if ifi, ok := r2.(*ssa.If); ok && core.FailsOnly(ifi.Block().Succs[0], map[*ssa.BasicBlock]bool{}) && bo.Op == token.NEQ {
							rejects = true
						}
					}
				}
			}
		}
		r.Check(rejects, "C29.validate", "Validate:duplicate-rejects", posOf(p, bo), "a length mismatch must reject the block")
	}
}

// C30 Transaction signatures bind every field that affects execution.
func c30(r *core.Report, p *core.Prog, thorough bool) {
	r.Explain = "Decided: which transaction fields the signed hash data reads (the property's list), that ComputeHash hashes exactly that data, that every accepting exit of ValidateWrtTimeForBlock follows VerifyHash unconditionally and VerifySignature unless the caller batches signatures, that both verifiers reject on mismatch/false/error, and that ComputeProperties always ends in the key↔id check. Not decided: that the entity pipeline always runs ComputeProperties before validation."
	r.Rule("C30.coverage", "Transaction.HashData reads CreationDate, Nonce, ClientID, ToClientID, Value, TransactionData, Fee, TransactionType")
	r.Rule("C30.hash-shape", "ComputeHash = encryption.Hash(HashData()); VerifyHash compares the stored hash with ComputeHash() and rejects a mismatch")
	r.Rule("C30.validate", "ValidateWrtTimeForBlock: every accepting exit follows VerifyHash (unconditionally) and VerifySignature (skipped only when validateSignature is false); both errors reject")
	r.Rule("C30.signature", "VerifySignature verifies t.Signature over t.Hash with the scheme bound to t.ClientID/t.PublicKey; error and false reject")
	r.Rule("C30.client-id", "ComputeProperties must end in ComputeClientID, which verifies public key ↔ client id or derives the id from the key")
	hd := p.Func("(*" + pkgTxn + ".Transaction).HashData")
	ch := p.Func("(*" + pkgTxn + ".Transaction).ComputeHash")
	vh := p.Func("(*" + pkgTxn + ".Transaction).VerifyHash")
	vs := p.Func("(*" + pkgTxn + ".Transaction).VerifySignature")
	vw := p.Func("(*" + pkgTxn + ".Transaction).ValidateWrtTimeForBlock")
	cp := p.Func("(*" + pkgTxn + ".Transaction).ComputeProperties")
	cc := p.Func("(*" + pkgTxn + ".Transaction).ComputeClientID")
	if hd == nil || ch == nil || vh == nil || vs == nil || vw == nil || cp == nil || cc == nil {
		r.Unresolved("C30.coverage", "Transaction hash/validate functions")
		return
	}
	cov := HashCoverage(p, hd)
	for _, f := range []string{"CreationDate", "Nonce", "ClientID", "ToClientID", "Value", "TransactionData", "Fee", "TransactionType"} {
		r.Check(covHas(cov, f), "C30.coverage", "Transaction.hash-reads:"+f, p.Pos(hd.Pos()), "field must be part of the signed hash data")
	}
	// shape
	okShape := false
	for _, ret := range core.Returns(ch) {
		if c, _ := core.CallOf(ret.Results[0]); c != nil && core.CalleeName(c.Common()) == "0chain.net/core/encryption.Hash" {
			arg := c.Call.Args[0]
			if mi, ok := arg.(*ssa.MakeInterface); ok {
				arg = mi.X
			}
			if c2, _ := core.CallOf(arg); c2 != nil && c2.Common().StaticCallee() == hd {
				okShape = true
			}
		}
	}
	r.Check(okShape, "C30.hash-shape", "ComputeHash:hash-of-hash-data", p.Pos(ch.Pos()), "ComputeHash must return encryption.Hash(t.HashData())")
	// VerifyHash: success exits dominated by the equality fall-through
	for _, ret := range core.SuccessExits(vh) {
		ok := false
		for _, f := range core.FactsAt(ret.Block()) {
			bo, isB := f.Cond.(*ssa.BinOp)
			if !isB {
				continue
			}
			eq := (bo.Op == token.NEQ && !f.Taken) || (bo.Op == token.EQL && f.Taken)
			c1, _ := core.CallOf(bo.X)
			c2, _ := core.CallOf(bo.Y)
			hashSide := (c1 != nil && c1.Common().StaticCallee() == ch && strings.HasSuffix(describe(bo.Y), ".Hash")) ||
				(c2 != nil && c2.Common().StaticCallee() == ch && strings.HasSuffix(describe(bo.X), ".Hash"))
			if eq && hashSide {
				ok = true
			}
		}
		r.Check(ok, "C30.hash-shape", fmt.Sprintf("VerifyHash:accept-needs-equality@b%d", ret.Block().Index), p.Pos(ret.Pos()), "accepting exit must follow t.Hash == t.ComputeHash()")
	}
	// ValidateWrtTimeForBlock
	vhc := findCalls(vw, vh.String())
	vsc := findCalls(vw, vs.String())
	var flag *ssa.Parameter
	for _, prm := range vw.Params {
		if prm.Name() == "validateSignature" {
			flag = prm
		}
	}
	if r.Check(len(vhc) == 1 && len(vsc) == 1 && flag != nil, "C30.validate", "ValidateWrtTimeForBlock:calls", p.Pos(vw.Pos()), fmt.Sprintf("VerifyHash=%d VerifySignature=%d", len(vhc), len(vsc))) {
		r.Check(core.ErrLeadsToFailure(vhc[0]), "C30.validate", "ValidateWrtTimeForBlock:hash-err", p.Pos(vhc[0].Pos()), "hash mismatch rejects")
		r.Check(core.ErrLeadsToFailure(vsc[0]), "C30.validate", "ValidateWrtTimeForBlock:signature-err", p.Pos(vsc[0].Pos()), "bad signature rejects")
		for _, ret := range core.SuccessExits(vw) {
			// hash: unconditional must-pass
			path, _, found := core.PathQuery{Fn: vw, Barrier: func(in ssa.Instruction) bool { return in == ssa.Instruction(vhc[0]) }, EdgeOK: core.FeasibleEdge,
				Target: func(in ssa.Instruction) bool { return in == ssa.Instruction(ret) }}.Find()
			d := "every accepting path verifies the hash"
			if found {
				d = "accepting exit reachable without VerifyHash: " + p.PathString(path)
			}
			r.Check(!found, "C30.validate", fmt.Sprintf("ValidateWrtTimeForBlock:must-verify-hash@b%d", ret.Block().Index), p.Pos(ret.Pos()), d)
			// signature: avoidable only through the false edge of `if validateSignature`
			path, _, found = core.PathQuery{Fn: vw, Barrier: func(in ssa.Instruction) bool { return in == ssa.Instruction(vsc[0]) },
				EdgeOK: func(from *ssa.BasicBlock, i int) bool {
					if ifi, ok := from.Instrs[len(from.Instrs)-1].(*ssa.If); ok && ifi.Cond == ssa.Value(flag) && i == 1 {
						return false // the sanctioned skip (caller aggregates signatures)
					}
					return core.FeasibleEdge(from, i)
				},
				Target: func(in ssa.Instruction) bool { return in == ssa.Instruction(ret) }}.Find()
			d = "signature skipped only when validateSignature is false"
			if found {
				d = "accepting exit reachable without VerifySignature although validateSignature is true: " + p.PathString(path)
			}
			r.Check(!found, "C30.validate", fmt.Sprintf("ValidateWrtTimeForBlock:must-verify-signature@b%d", ret.Block().Index), p.Pos(ret.Pos()), d)
		}
	}
	// VerifySignature
	vc := core.CallsIn(vs, false, core.MethodIs("Verify"))
	if r.Check(len(vc) == 1, "C30.signature", "VerifySignature:verify-call", p.Pos(vs.Pos()), fmt.Sprintf("%d Verify calls", len(vc))) {
		call := vc[0].Instr.(*ssa.Call)
		a := core.CallArgs(call.Common())
		r.Check(strings.HasSuffix(describe(a[0]), ".Signature") && strings.HasSuffix(describe(a[1]), ".Hash"), "C30.signature", "VerifySignature:args", p.Pos(call.Pos()), "verifies "+describe(a[0])+" over "+describe(a[1]))
		r.Check(core.ErrLeadsToFailure(call), "C30.signature", "VerifySignature:err", p.Pos(call.Pos()), "verification error rejects")
		r.Check(boolResultRejects(call), "C30.signature", "VerifySignature:false", p.Pos(call.Pos()), "false result rejects")
	}
	gs := p.Func("(*" + pkgTxn + ".Transaction).GetSignatureScheme")
	if gs != nil {
		// the scheme is keyed by the transaction's client id and public key
		reads := fieldsRead(gs)
		r.Check(reads["ClientID"] && reads["PublicKey"], "C30.signature", "GetSignatureScheme:bound-to-sender", p.Pos(gs.Pos()), "scheme resolved from t.ClientID / t.PublicKey")
	}
	// ComputeProperties → ComputeClientID on every success exit (returned directly)
	okCP := false
	for _, ret := range core.Returns(cp) {
		if c, _ := core.CallOf(ret.Results[0]); c != nil && c.Common().StaticCallee() == cc {
			okCP = true
		}
	}
	for _, ret := range core.SuccessExits(cp) {
		c, _ := core.CallOf(ret.Results[0])
		if c == nil || c.Common().StaticCallee() != cc {
			if core.ClassifyReturn(ret) != core.ExitFailure {
				okCP = false
			}
		}
	}
	r.Check(okCP, "C30.client-id", "ComputeProperties:ends-in-ComputeClientID", p.Pos(cp.Pos()), "every non-failing exit returns ComputeClientID()")
	// ComputeClientID: with a ClientID present → VerifyPublicKeyClientID returned; else id derived from the key
	vp := findCalls(cc, "0chain.net/core/encryption.VerifyPublicKeyClientID")
	gid := findCalls(cc, "0chain.net/chaincore/client.GetIDFromPublicKey")
	r.Check(len(vp) == 1 && len(gid) == 1, "C30.client-id", "ComputeClientID:verify-or-derive", p.Pos(cc.Pos()), fmt.Sprintf("VerifyPublicKeyClientID=%d GetIDFromPublicKey=%d", len(vp), len(gid)))
	if len(vp) == 1 {
		a := vp[0].Call.Args
		r.Check(strings.HasSuffix(describe(a[0]), ".PublicKey") && strings.HasSuffix(describe(a[1]), ".ClientID"), "C30.client-id", "ComputeClientID:verify-args", p.Pos(vp[0].Pos()), "checks "+describe(a[0])+" against "+describe(a[1]))
		ret := false
		for _, ref := range *vp[0].Referrers() {
			if _, ok := ref.(*ssa.Return); ok {
				ret = true
			}
		}
		r.Check(ret || core.ErrLeadsToFailure(vp[0]), "C30.client-id", "ComputeClientID:verify-result-returned", p.Pos(vp[0].Pos()), "mismatch must be returned")
	}
	if len(gid) == 1 {
		r.Check(core.ErrLeadsToFailure(gid[0]), "C30.client-id", "ComputeClientID:derive-err", p.Pos(gid[0].Pos()), "derivation error rejects")
	}
	// every accepting exit is either the verification's own result, or follows the
	// derivation of the id from the key: no shortcut (cache hit, flag) accepts a pair
	// (public key, client id) that was not compared
	if len(vp) == 1 && len(gid) == 1 {
		okAll := true
		why := ""
		for _, ret := range core.Returns(cc) {
			if core.ClassifyReturn(ret) == core.ExitFailure || ret.Block() == cc.Recover {
				continue
			}
			ei := core.ErrIndex(cc)
			rv := core.ResultValue(ret, ei)
			if rv == ssa.Value(vp[0]) {
				continue
			}
			// after an error-checked verification, or after the id was stored from the derivation
			if callDominates(vp[0], ret) && (core.ErrLeadsToFailure(vp[0]) || errNilAt(vp[0], ret)) {
				continue
			}
			derived := false
			if callDominates(gid[0], ret) {
				for _, b := range cc.Blocks {
					for _, in := range b.Instrs {
						st, ok := in.(*ssa.Store)
						if !ok || !callDominates(st, ret) {
							continue
						}
						if fa, ok := st.Addr.(*ssa.FieldAddr); ok && core.FieldOf(fa) != nil && core.FieldOf(fa).Name() == "ClientID" {
							if c, idx := core.CallOf(st.Val); c == gid[0] && idx == 0 {
								derived = true
							}
						}
					}
				}
			}
			if !derived {
				okAll = false
				why = "accepting exit at " + p.Pos(ret.Pos()) + " follows neither the key/id comparison nor the derivation of the id from the key"
			}
		}
		r.Check(okAll, "C30.client-id", "ComputeClientID:no-unverified-accept", p.Pos(cc.Pos()), "the sender id of an accepted transaction is always bound to its public key; "+why)
	}
	_ = types.Typ
}

// covHas: key is "Owner.Field" (exact) or a bare field name (any owner).
func covHas(cov map[string]bool, key string) bool {
	if strings.Contains(key, ".") {
		return cov[key]
	}
	for k := range cov {
		if strings.HasSuffix(k, "."+key) {
			return true
		}
	}
	return false
}

// unconditionalSinks: every piece a hash-data function feeds into its result through a
// strings.Builder (WriteString / WriteByte / Write…) is fed on every path to the
// return, except on paths cut by a nil test of a pointer reachable from the receiver
// (an absent optional part). A piece that is skipped under any other condition — an
// empty cached value, a flag — leaves contents out of the hash.
func unconditionalSinks(r *core.Report, p *core.Prog, fn *ssa.Function, rule, name string) {
	n := 0
	for _, b := range fn.Blocks {
		for _, in := range b.Instrs {
			c, ok := in.(*ssa.Call)
			if !ok {
				continue
			}
			cn := core.CalleeName(c.Common())
			if !strings.HasPrefix(cn, "(*strings.Builder).Write") {
				continue
			}
			n++
			edgeOK := func(from *ssa.BasicBlock, succ int) bool {
				if !core.FeasibleEdge(from, succ) {
					return false
				}
				ifi, ok := from.Instrs[len(from.Instrs)-1].(*ssa.If)
				if !ok {
					return true
				}
				if x, isNil, ok := core.NilFact(core.Fact{Cond: ifi.Cond, Taken: succ == 0, If: ifi}); ok && isNil {
					if rt, pth := core.BaseObject(x); pth != "" && core.ParamOf(rt) == fn.Params[0] {
						return false // the optional part is absent: nothing to hash
					}
				}
				return true
			}
			path, _, found := core.PathQuery{Fn: fn, Barrier: func(x ssa.Instruction) bool { return x == ssa.Instruction(c) }, EdgeOK: edgeOK,
				Target: func(x ssa.Instruction) bool { _, ok := x.(*ssa.Return); return ok }}.Find()
			d := ""
			if found {
				d = "a return is reachable without it: " + p.PathString(path)
			}
			arg := "?"
			if a := core.CallArgs(c.Common()); len(a) > 0 {
				arg = describe(a[0])
			}
			r.Check(!found, rule, fmt.Sprintf("%s:piece#%d-unconditional", name, n), p.Pos(c.Pos()), "the piece "+arg+" enters the hash data on every path (only the absence of an optional part may skip it); "+d)
		}
	}
	if n == 0 {
		r.Pass(rule, name+":no-builder-pieces", p.Pos(fn.Pos()), "the hash data is not assembled through a strings.Builder (single expression)")
	}
}
