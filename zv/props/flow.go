package props

import (
	"go/token"
	"go/types"

	"golang.org/x/tools/go/ssa"

	"zv/core"
)

// ---------------------------------------------------------------------------------
// Shared helpers for guard / flow rules (used by the C09–C38 checkers)
// ---------------------------------------------------------------------------------

// FlowLoads computes the backward data-dependence closure of v inside its function and
// returns every field/element load in it, keyed "Owner.Field" (owner = named struct
// type). Unlike core.Slice it goes *through* calls (a result depends on every argument,
// varargs arrays included) and through local arrays/structs built element by element.
func FlowLoads(v ssa.Value) (fields map[string]bool, leaves []ssa.Value) {
	fields = map[string]bool{}
	seen := map[ssa.Value]bool{}
	var walk func(v ssa.Value)
	walkAlloc := func(a *ssa.Alloc) {
		for _, ref := range *a.Referrers() {
			switch x := ref.(type) {
			case *ssa.Store:
				if x.Addr == ssa.Value(a) {
					walk(x.Val)
				}
			case *ssa.IndexAddr:
				for _, r2 := range *x.Referrers() {
					if s, ok := r2.(*ssa.Store); ok && s.Addr == ssa.Value(x) {
						walk(s.Val)
					}
				}
			case *ssa.FieldAddr:
				for _, r2 := range *x.Referrers() {
					if s, ok := r2.(*ssa.Store); ok && s.Addr == ssa.Value(x) {
						walk(s.Val)
					}
				}
			}
		}
	}
	walk = func(v ssa.Value) {
		if v == nil || seen[v] {
			return
		}
		seen[v] = true
		switch x := v.(type) {
		case *ssa.Const, *ssa.Parameter, *ssa.FreeVar, *ssa.Global, *ssa.Function, *ssa.Builtin:
			leaves = append(leaves, v)
		case *ssa.Phi:
			for _, e := range x.Edges {
				walk(e)
			}
		case *ssa.BinOp:
			walk(x.X)
			walk(x.Y)
		case *ssa.UnOp:
			if x.Op == token.MUL {
				switch a := x.X.(type) {
				case *ssa.Alloc:
					walkAlloc(a)
					return
				case *ssa.FieldAddr:
					if fl := core.FieldOf(a); fl != nil {
						fields[ownerName(a.X.Type())+"."+fl.Name()] = true
					}
					leaves = append(leaves, v)
					walk(a.X)
					return
				case *ssa.IndexAddr:
					walk(a.X)
					walk(a.Index)
					return
				}
			}
			walk(x.X)
		case *ssa.Field:
			if fl := core.FieldOf(x); fl != nil {
				fields[ownerName(x.X.Type())+"."+fl.Name()] = true
			}
			walk(x.X)
		case *ssa.FieldAddr:
			walk(x.X)
		case *ssa.IndexAddr:
			walk(x.X)
		case *ssa.Convert:
			walk(x.X)
		case *ssa.ChangeType:
			walk(x.X)
		case *ssa.MakeInterface:
			walk(x.X)
		case *ssa.ChangeInterface:
			walk(x.X)
		case *ssa.TypeAssert:
			walk(x.X)
		case *ssa.Extract:
			walk(x.Tuple)
		case *ssa.Call:
			leaves = append(leaves, v)
			for _, a := range x.Call.Args {
				walk(a)
			}
			if x.Call.IsInvoke() {
				walk(x.Call.Value)
			}
		case *ssa.Alloc:
			walkAlloc(x)
		case *ssa.Lookup:
			walk(x.X)
			walk(x.Index)
		case *ssa.Index:
			walk(x.X)
		case *ssa.Slice:
			walk(x.X)
		case *ssa.MakeSlice, *ssa.MakeMap:
			leaves = append(leaves, v)
		default:
			leaves = append(leaves, v)
		}
	}
	walk(v)
	return
}

// ResultFlowFields: union of FlowLoads over result i of every return of fn.
func ResultFlowFields(fn *ssa.Function, i int) map[string]bool {
	out := map[string]bool{}
	for _, ret := range core.Returns(fn) {
		if i >= len(ret.Results) {
			continue
		}
		fs, _ := FlowLoads(core.ResultValue(ret, i))
		for k := range fs {
			out[k] = true
		}
	}
	return out
}

// stripNot removes unary NOTs, flipping polarity.
func stripNot(v ssa.Value, taken bool) (ssa.Value, bool) {
	for {
		if u, ok := v.(*ssa.UnOp); ok && u.Op == token.NOT {
			v, taken = u.X, !taken
			continue
		}
		return v, taken
	}
}

// callDominates: call c executes before `at` on every path to `at`.
func callDominates(c ssa.Instruction, at ssa.Instruction) bool {
	if c.Block() == at.Block() {
		return core.Reaches(c, at) && instrBefore(c, at)
	}
	return c.Block().Dominates(at.Block())
}

func instrBefore(a, b ssa.Instruction) bool {
	if a.Block() != b.Block() {
		return false
	}
	for _, in := range a.Block().Instrs {
		if in == a {
			return true
		}
		if in == b {
			return false
		}
	}
	return false
}

// Establishes reports whether every success exit of fn is preceded by an error-checked
// call satisfying pred, directly or through first-party callees (depth-bounded): fn is
// then a *guard wrapper* for pred.
func Establishes(fn *ssa.Function, pred func(*ssa.Call) bool, depth int) bool {
	if fn == nil || fn.Blocks == nil || depth < 0 {
		return false
	}
	exits := core.SuccessExits(fn)
	if len(exits) == 0 {
		return false
	}
	var cands []*ssa.Call
	for _, b := range fn.Blocks {
		for _, in := range b.Instrs {
			c, ok := in.(*ssa.Call)
			if !ok {
				continue
			}
			if callEstablishes(c, pred, depth) {
				cands = append(cands, c)
			}
		}
	}
	if len(cands) == 0 {
		return false
	}
	isC := map[ssa.Instruction]bool{}
	for _, c := range cands {
		isC[c] = true
	}
	for _, ret := range exits {
		_, _, found := core.PathQuery{Fn: fn, Barrier: func(in ssa.Instruction) bool { return isC[in] }, EdgeOK: core.FeasibleEdge,
			Target: func(in ssa.Instruction) bool { return in == ssa.Instruction(ret) }}.Find()
		if found {
			return false
		}
	}
	return true
}

// callEstablishes: c is an error-checked (or bool-checked) call that satisfies pred or
// whose static callee is a guard wrapper for it.
func callEstablishes(c *ssa.Call, pred func(*ssa.Call) bool, depth int) bool {
	if !(core.ErrLeadsToFailure(c) || boolResultRejects(c)) {
		return false
	}
	if pred(c) {
		return true
	}
	if depth <= 0 {
		return false
	}
	cal := core.StaticCallee(c.Common())
	if cal == nil || cal.Pkg == nil || !core.IsModule(cal.Pkg.Pkg.Path()) {
		return false
	}
	// pred is evaluated inside the callee on the callee's own values
	return Establishes(cal, pred, depth-1)
}

// EstablishedBefore finds an error-checked call dominating `at` that establishes pred
// (directly or through guard wrappers up to depth).
func EstablishedBefore(at ssa.Instruction, pred func(*ssa.Call) bool, depth int) *ssa.Call {
	fn := at.Parent()
	for _, b := range fn.Blocks {
		for _, in := range b.Instrs {
			c, ok := in.(*ssa.Call)
			if !ok || ssa.Instruction(c) == at {
				continue
			}
			if !callDominates(c, at) {
				continue
			}
			if callEstablishes(c, pred, depth) {
				return c
			}
		}
	}
	return nil
}

// pathOf renders BaseObject as (root, path).
func pathOf(v ssa.Value) (ssa.Value, string) { return core.BaseObject(v) }

// samePath: both values are loads of the same access path from the same root object.
func samePath(a, b ssa.Value) bool {
	ra, pa := core.BaseObject(a)
	rb, pb := core.BaseObject(b)
	return pa == pb && (ra == rb || core.SameValue(ra, rb) || canonObj(ra) == canonObj(rb))
}

// isLoadOf: v is a load of <root><path> (path like ".ReadMarker.ClientID").
func isLoadOf(v ssa.Value, root ssa.Value, path string) bool {
	rv, pv := core.BaseObject(v)
	return pv == path && (rv == root || canonObj(rv) == canonObj(root))
}

// errToleratedOnly: from call (whose error value is ev), a non-failing exit is
// reachable only along edges where ev is nil or equals one of the tolerated sentinel
// globals. Returns false with a witness when some other error value can reach success.
func errToleratedOnly(p *core.Prog, call *ssa.Call, tolerated func(g *ssa.Global) bool) (bool, string) {
	ev := core.ErrResult(call)
	if ev == nil {
		return false, "error result dropped"
	}
	isEv := func(v ssa.Value) bool {
		if core.SameValue(v, ev) {
			return true
		}
		for _, a := range core.ValueAliases(ev) {
			if core.SameValue(a, v) {
				return true
			}
		}
		return false
	}
	// edge is an "acceptable" edge (ev known nil or tolerated) -> prune it; then no
	// success exit may remain reachable without crossing a test of ev at all.
	tests := 0
	edgeOK := func(from *ssa.BasicBlock, succ int) bool {
		if !core.FeasibleEdge(from, succ) {
			return false
		}
		ifi, ok := from.Instrs[len(from.Instrs)-1].(*ssa.If)
		if !ok {
			return true
		}
		cv, taken := stripNot(ifi.Cond, succ == 0)
		bo, ok := cv.(*ssa.BinOp)
		if !ok || (bo.Op != token.EQL && bo.Op != token.NEQ) {
			return true
		}
		var other ssa.Value
		switch {
		case isEv(bo.X):
			other = bo.Y
		case isEv(bo.Y):
			other = bo.X
		default:
			return true
		}
		tests++
		eq := (bo.Op == token.EQL) == taken // on this edge ev == other holds
		if core.IsNilConst(other) {
			return !eq // prune the nil edge
		}
		if ld, ok := other.(*ssa.UnOp); ok && ld.Op == token.MUL {
			if g, ok := ld.X.(*ssa.Global); ok && tolerated != nil && tolerated(g) {
				return !eq // prune the tolerated-sentinel edge
			}
		}
		return true
	}
	path, _, found := core.PathQuery{Fn: call.Parent(), Start: call, EdgeOK: edgeOK,
		Target: func(in ssa.Instruction) bool {
			ret, ok := in.(*ssa.Return)
			return ok && core.ClassifyReturn(ret) != core.ExitFailure
		}}.Find()
	if found {
		return false, "a non-tolerated error can reach a success exit: " + p.PathString(path)
	}
	if tests == 0 {
		return false, "error never tested"
	}
	return true, ""
}

// namedOf returns the named struct type (pointer stripped) of a type.
func namedOf(t types.Type) *types.Named {
	if pt, ok := t.Underlying().(*types.Pointer); ok {
		t = pt.Elem()
	}
	n, _ := t.(*types.Named)
	return n
}

// callsNamed returns Call instructions of fn whose resolved callee has the given
// qualified name, or (for methods) bare method name with receiver type suffix.
func callsByMethod(fn *ssa.Function, method, recvSuffix string) []*ssa.Call {
	var out []*ssa.Call
	for _, b := range fn.Blocks {
		for _, in := range b.Instrs {
			c, ok := in.(*ssa.Call)
			if !ok {
				continue
			}
			if core.MethodName(c.Common()) != method {
				continue
			}
			if recvSuffix != "" {
				rt := core.RecvTypeName(c.Common())
				if len(rt) < len(recvSuffix) || rt[len(rt)-len(recvSuffix):] != recvSuffix {
					continue
				}
			}
			out = append(out, c)
		}
	}
	return out
}
