package props

import (
	"go/token"
	"go/types"

	"golang.org/x/tools/go/ssa"

	"zv/core"
)

// ---------------------------------------------------------------------------------
// Shared helpers for guard / flow rules (used by the C09–C38 checkers)
// ---------------------------------------------------------------------------------

// FlowLoads computes the backward data-dependence closure of v inside its function and
// returns every field/element load in it, keyed "Owner.Field" (owner = named struct
// type). Unlike core.Slice it goes *through* calls (a result depends on every argument,
// varargs arrays included) and through local arrays/structs built element by element.
func FlowLoads(v ssa.Value) (fields map[string]bool, leaves []ssa.Value) {
	return flowLoads(v, false)
}

// FlowLoadsDeep additionally treats a local object as depending on the arguments of every
// call it is passed to by address (`var s Sig; s.Deserialize(x)` makes s depend on x).
func FlowLoadsDeep(v ssa.Value) (fields map[string]bool, leaves []ssa.Value) {
	return flowLoads(v, true)
}

func flowLoads(v ssa.Value, deep bool) (fields map[string]bool, leaves []ssa.Value) {
	fields = map[string]bool{}
	seen := map[ssa.Value]bool{}
	var walk func(v ssa.Value)
	walkAlloc := func(a *ssa.Alloc) {
		for _, ref := range *a.Referrers() {
			switch x := ref.(type) {
			case *ssa.Store:
				if x.Addr == ssa.Value(a) {
					walk(x.Val)
				}
			case *ssa.IndexAddr:
				for _, r2 := range *x.Referrers() {
					if s, ok := r2.(*ssa.Store); ok && s.Addr == ssa.Value(x) {
						walk(s.Val)
					}
				}
			case *ssa.FieldAddr:
				for _, r2 := range *x.Referrers() {
					if s, ok := r2.(*ssa.Store); ok && s.Addr == ssa.Value(x) {
						walk(s.Val)
					}
				}
			case *ssa.Call:
				if deep {
					for _, arg := range x.Call.Args {
						if arg != ssa.Value(a) {
							walk(arg)
						}
					}
				}
			}
		}
	}
	walk = func(v ssa.Value) {
		if v == nil || seen[v] {
			return
		}
		seen[v] = true
		switch x := v.(type) {
		case *ssa.Const, *ssa.Parameter, *ssa.FreeVar, *ssa.Global, *ssa.Function, *ssa.Builtin:
			leaves = append(leaves, v)
		case *ssa.Phi:
			for _, e := range x.Edges {
				walk(e)
			}
		case *ssa.BinOp:
			walk(x.X)
			walk(x.Y)
		case *ssa.UnOp:
			if x.Op == token.MUL {
				switch a := x.X.(type) {
				case *ssa.Alloc:
					walkAlloc(a)
					return
				case *ssa.FieldAddr:
					if fl := core.FieldOf(a); fl != nil {
						fields[ownerName(a.X.Type())+"."+fl.Name()] = true
					}
					leaves = append(leaves, v)
					walk(a.X)
					return
				case *ssa.IndexAddr:
					walk(a.X)
					walk(a.Index)
					return
				}
			}
			walk(x.X)
		case *ssa.Field:
			if fl := core.FieldOf(x); fl != nil {
				fields[ownerName(x.X.Type())+"."+fl.Name()] = true
			}
			walk(x.X)
		case *ssa.FieldAddr:
			walk(x.X)
		case *ssa.IndexAddr:
			walk(x.X)
		case *ssa.Convert:
			walk(x.X)
		case *ssa.ChangeType:
			walk(x.X)
		case *ssa.MakeInterface:
			walk(x.X)
		case *ssa.ChangeInterface:
			walk(x.X)
		case *ssa.TypeAssert:
			walk(x.X)
		case *ssa.Extract:
			walk(x.Tuple)
		case *ssa.Call:
			leaves = append(leaves, v)
			for _, a := range x.Call.Args {
				walk(a)
			}
			if x.Call.IsInvoke() {
				walk(x.Call.Value)
			}
		case *ssa.Alloc:
			walkAlloc(x)
		case *ssa.Lookup:
			walk(x.X)
			walk(x.Index)
		case *ssa.Index:
			walk(x.X)
		case *ssa.Slice:
			walk(x.X)
		case *ssa.MakeSlice, *ssa.MakeMap:
			leaves = append(leaves, v)
		default:
			leaves = append(leaves, v)
		}
	}
	walk(v)
	return
}

// ResultFlowFields: union of FlowLoads over result i of every return of fn.
func ResultFlowFields(fn *ssa.Function, i int) map[string]bool {
	out := map[string]bool{}
	for _, ret := range core.Returns(fn) {
		if i >= len(ret.Results) {
			continue
		}
		fs, _ := FlowLoads(core.ResultValue(ret, i))
		for k := range fs {
			out[k] = true
		}
	}
	return out
}

// stripNot removes unary NOTs, flipping polarity.
func stripNot(v ssa.Value, taken bool) (ssa.Value, bool) {
	return core.NormCond(v, taken)
}

// callDominates: call c executes before `at` on every path to `at`.
func callDominates(c ssa.Instruction, at ssa.Instruction) bool {
	if c.Block() == at.Block() {
		return core.Reaches(c, at) && instrBefore(c, at)
	}
	return c.Block().Dominates(at.Block())
}

func instrBefore(a, b ssa.Instruction) bool {
	if a.Block() != b.Block() {
		return false
	}
	for _, in := range a.Block().Instrs {
		if in == a {
			return true
		}
		if in == b {
			return false
		}
	}
	return false
}

// Establishes reports whether every success exit of fn is preceded by an error-checked
// call satisfying pred, directly or through first-party callees (depth-bounded): fn is
// then a *guard wrapper* for pred.
func Establishes(fn *ssa.Function, pred func(*ssa.Call) bool, depth int) bool {
	if fn == nil || fn.Blocks == nil || depth < 0 {
		return false
	}
	exits := core.SuccessExits(fn)
	if len(exits) == 0 {
		return false
	}
	var cands []*ssa.Call
	for _, b := range fn.Blocks {
		for _, in := range b.Instrs {
			c, ok := in.(*ssa.Call)
			if !ok {
				continue
			}
			if callEstablishes(c, pred, depth) {
				cands = append(cands, c)
			}
		}
	}
	if len(cands) == 0 {
		return false
	}
	isC := map[ssa.Instruction]bool{}
	for _, c := range cands {
		isC[c] = true
	}
	for _, ret := range exits {
		_, _, found := core.PathQuery{Fn: fn, Barrier: func(in ssa.Instruction) bool { return isC[in] }, EdgeOK: core.FeasibleEdge,
			Target: func(in ssa.Instruction) bool { return in == ssa.Instruction(ret) }}.Find()
		if found {
			return false
		}
	}
	return true
}

// callEstablishes: c is an error-checked (or bool-checked) call that satisfies pred or
// whose static callee is a guard wrapper for it.
func callEstablishes(c *ssa.Call, pred func(*ssa.Call) bool, depth int) bool {
	if !(core.ErrLeadsToFailure(c) || boolResultRejects(c)) {
		return false
	}
	if pred(c) {
		return true
	}
	if depth <= 0 {
		return false
	}
	cal := core.StaticCallee(c.Common())
	if cal == nil || cal.Pkg == nil || !core.IsModule(cal.Pkg.Pkg.Path()) {
		return false
	}
	// pred is evaluated inside the callee on the callee's own values
	return Establishes(cal, pred, depth-1)
}

// EstablishedBefore finds an error-checked call dominating `at` that establishes pred
// (directly or through guard wrappers up to depth).
func EstablishedBefore(at ssa.Instruction, pred func(*ssa.Call) bool, depth int) *ssa.Call {
	fn := at.Parent()
	for _, b := range fn.Blocks {
		for _, in := range b.Instrs {
			c, ok := in.(*ssa.Call)
			if !ok || ssa.Instruction(c) == at {
				continue
			}
			if !callDominates(c, at) {
				continue
			}
			if callEstablishes(c, pred, depth) {
				return c
			}
		}
	}
	return nil
}

// pathOf renders BaseObject as (root, path).
func pathOf(v ssa.Value) (ssa.Value, string) { return core.BaseObject(v) }

// samePath: both values are loads of the same access path from the same root object.
func samePath(a, b ssa.Value) bool {
	ra, pa := core.BaseObject(a)
	rb, pb := core.BaseObject(b)
	return pa == pb && (ra == rb || core.SameValue(ra, rb) || canonObj(ra) == canonObj(rb))
}

// isLoadOf: v is a load of <root><path> (path like ".ReadMarker.ClientID").
func isLoadOf(v ssa.Value, root ssa.Value, path string) bool {
	rv, pv := core.BaseObject(v)
	return pv == path && (rv == root || canonObj(rv) == canonObj(root))
}

// errToleratedOnly: from call (whose error value is ev), a non-failing exit is
// reachable only along edges where ev is nil or equals one of the tolerated sentinel
// globals. Returns false with a witness when some other error value can reach success.
func errToleratedOnly(p *core.Prog, call *ssa.Call, tolerated func(g *ssa.Global) bool) (bool, string) {
	ev := core.ErrResult(call)
	if ev == nil {
		return false, "error result dropped"
	}
	isEv := func(v ssa.Value) bool {
		if core.SameValue(v, ev) {
			return true
		}
		for _, a := range core.ValueAliases(ev) {
			if core.SameValue(a, v) {
				return true
			}
		}
		return false
	}
	// edge is an "acceptable" edge (ev known nil or tolerated) -> prune it; then no
	// success exit may remain reachable without crossing a test of ev at all.
	tests := 0
	edgeOK := func(from *ssa.BasicBlock, succ int) bool {
		if !core.FeasibleEdge(from, succ) {
			return false
		}
		ifi, ok := from.Instrs[len(from.Instrs)-1].(*ssa.If)
		if !ok {
			return true
		}
		cv, taken := stripNot(ifi.Cond, succ == 0)
		bo, ok := cv.(*ssa.BinOp)
		if !ok || (bo.Op != token.EQL && bo.Op != token.NEQ) {
			return true
		}
		var other ssa.Value
		switch {
		case isEv(bo.X):
			other = bo.Y
		case isEv(bo.Y):
			other = bo.X
		default:
			return true
		}
		tests++
		eq := (bo.Op == token.EQL) == taken // on this edge ev == other holds
		if core.IsNilConst(other) {
			return !eq // prune the nil edge
		}
		if ld, ok := other.(*ssa.UnOp); ok && ld.Op == token.MUL {
			if g, ok := ld.X.(*ssa.Global); ok && tolerated != nil && tolerated(g) {
				return !eq // prune the tolerated-sentinel edge
			}
		}
		return true
	}
	path, _, found := core.PathQuery{Fn: call.Parent(), Start: call, EdgeOK: edgeOK,
		Target: func(in ssa.Instruction) bool {
			ret, ok := in.(*ssa.Return)
			return ok && core.ClassifyReturn(ret) != core.ExitFailure
		}}.Find()
	if found {
		return false, "a non-tolerated error can reach a success exit: " + p.PathString(path)
	}
	if tests == 0 {
		return false, "error never tested"
	}
	return true, ""
}

// namedOf returns the named struct type (pointer stripped) of a type.
func namedOf(t types.Type) *types.Named {
	if pt, ok := t.Underlying().(*types.Pointer); ok {
		t = pt.Elem()
	}
	n, _ := t.(*types.Named)
	return n
}

// callsNamed returns Call instructions of fn whose resolved callee has the given
// qualified name, or (for methods) bare method name with receiver type suffix.
func callsByMethod(fn *ssa.Function, method, recvSuffix string) []*ssa.Call {
	var out []*ssa.Call
	for _, b := range fn.Blocks {
		for _, in := range b.Instrs {
			c, ok := in.(*ssa.Call)
			if !ok {
				continue
			}
			if core.MethodName(c.Common()) != method {
				continue
			}
			if recvSuffix != "" {
				rt := core.RecvTypeName(c.Common())
				if len(rt) < len(recvSuffix) || rt[len(rt)-len(recvSuffix):] != recvSuffix {
					continue
				}
			}
			out = append(out, c)
		}
	}
	return out
}

// ---------------------------------------------------------------------------------
// Range loops and nil-tracking path search
// ---------------------------------------------------------------------------------

// RangeLoop is a loop that visits every index of a slice value exactly once in order
// (`for i, x := range s`, `for i := 0; i < len(s); i++`).
type RangeLoop struct {
	L     *core.Loop
	Slice ssa.Value
	Idx   ssa.Value
	Elems []ssa.Value // loads of s[idx] inside the body (and the IndexAddr themselves)
}

// RangeLoops finds the complete range loops of fn.
func RangeLoops(fn *ssa.Function) []RangeLoop {
	var out []RangeLoop
	for _, l := range core.Loops(fn) {
		h := l.Header
		ifi, ok := h.Instrs[len(h.Instrs)-1].(*ssa.If)
		if !ok {
			continue
		}
		bo, ok := ifi.Cond.(*ssa.BinOp)
		if !ok || bo.Op != token.LSS {
			continue
		}
		lc, ok := bo.Y.(*ssa.Call)
		if !ok || core.CalleeName(lc.Common()) != "builtin.len" {
			continue
		}
		if !l.Body[h.Succs[0]] || l.Body[h.Succs[1]] {
			continue
		}
		if !c24IsRangeIndex(bo.X, l) {
			continue
		}
		// index must advance by exactly one per iteration and not be written otherwise:
		// guaranteed by the phi/+1 shape recognised above for `range`; for the 3-clause
		// form the phi's other edge must be idx+1.
		if ph, ok := bo.X.(*ssa.Phi); ok {
			okStep := true
			for _, e := range ph.Edges {
				if k, isK := core.ConstInt(e); isK && k == 0 {
					continue
				}
				if b2, ok := e.(*ssa.BinOp); ok && b2.Op == token.ADD && b2.X == ssa.Value(ph) {
					if k, isK := core.ConstInt(b2.Y); isK && k == 1 {
						continue
					}
				}
				okStep = false
			}
			if !okStep {
				continue
			}
		}
		rl := RangeLoop{L: l, Slice: lc.Call.Args[0], Idx: bo.X}
		for b := range l.Body {
			for _, in := range b.Instrs {
				if ia, ok := in.(*ssa.IndexAddr); ok && ia.Index == bo.X && sameSliceValue(ia.X, rl.Slice) {
					rl.Elems = append(rl.Elems, ia)
					for _, ref := range *ia.Referrers() {
						if ld, ok := ref.(*ssa.UnOp); ok && ld.Op == token.MUL {
							rl.Elems = append(rl.Elems, ld)
						}
					}
				}
			}
		}
		out = append(out, rl)
	}
	return out
}

func sameSliceValue(a, b ssa.Value) bool {
	if a == b || core.SameValue(a, b) {
		return true
	}
	ra, pa := core.BaseObject(a)
	rb, pb := core.BaseObject(b)
	return pa == pb && pa != "" && ra == rb
}

// (rl) IsElem: v is the element visited by the loop.
func (rl RangeLoop) IsElem(v ssa.Value) bool {
	for _, e := range rl.Elems {
		if e == v {
			return true
		}
	}
	return false
}

// BodyMustPass: inside the loop, no path from the body entry to the next iteration or
// to a non-failing exit of the function avoids `must`.
func (rl RangeLoop) BodyMustPass(p *core.Prog, must ssa.Instruction) (bool, string) {
	return rl.BodyMustPassTo(p, must, func(in ssa.Instruction) bool {
		ret, ok := in.(*ssa.Return)
		return ok && core.ClassifyReturn(ret) != core.ExitFailure
	})
}

// BodyMustPassTo: as BodyMustPass with a caller-defined set of "bad" targets besides
// the next iteration.
func (rl RangeLoop) BodyMustPassTo(p *core.Prog, must ssa.Instruction, bad func(ssa.Instruction) bool) (bool, string) {
	h := rl.L.Header
	ifi := h.Instrs[len(h.Instrs)-1]
	path, _, found := core.PathQuery{Fn: h.Parent(), Start: ifi,
		Barrier: func(in ssa.Instruction) bool { return in == must },
		EdgeOK: func(from *ssa.BasicBlock, succ int) bool {
			if from == h && succ == 1 {
				return false
			}
			return core.FeasibleEdge(from, succ)
		},
		Target: func(in ssa.Instruction) bool {
			return in == h.Instrs[0] || bad(in)
		}}.Find()
	if found {
		return false, "an iteration can finish without it: " + p.PathString(path)
	}
	return true, ""
}

// NoPathAvoidingTracked searches a path from `start` to a non-failing exit that crosses
// no barrier, pruning edges that contradict what the path itself established about
// the nil-ness of `tracked` (a small amount of path sensitivity for
// `if x == nil {…} … if x != nil {…}`). Returns ok=true when no such path exists.
func NoPathAvoidingTracked(p *core.Prog, fn *ssa.Function, start ssa.Instruction, barrier func(ssa.Instruction) bool, tracked ssa.Value) (bool, string) {
	type state struct {
		b   *ssa.BasicBlock
		nil int // 0 unknown, 1 nil, -1 non-nil
	}
	init := 0
	if start != nil {
		init = core.KnownNil(core.FactsAt(start.Block()), tracked)
	}
	scan := func(b *ssa.BasicBlock, from int) (hit, blocked bool) {
		for i := from; i < len(b.Instrs); i++ {
			in := b.Instrs[i]
			if ret, ok := in.(*ssa.Return); ok && core.ClassifyReturn(ret) != core.ExitFailure {
				return true, false
			}
			if barrier(in) {
				return false, true
			}
		}
		return false, false
	}
	var sb *ssa.BasicBlock
	si := 0
	if start != nil {
		sb = start.Block()
		for i, in := range sb.Instrs {
			if in == start {
				si = i + 1
			}
		}
	} else {
		sb = fn.Blocks[0]
	}
	if hit, blocked := scan(sb, si); hit {
		return false, "exit reachable in the same block"
	} else if blocked {
		return true, ""
	}
	type node struct {
		s    state
		prev *node
	}
	seen := map[state]bool{}
	queue := []*node{{s: state{sb, init}}}
	for len(queue) > 0 {
		n := queue[0]
		queue = queue[1:]
		for i, s := range n.s.b.Succs {
			if !core.FeasibleEdge(n.s.b, i) {
				continue
			}
			nl := n.s.nil
			if fs := factsOfEdge(n.s.b, s); len(fs) == 1 {
				if k := core.KnownNil(fs, tracked); k != 0 {
					if nl != 0 && nl != k {
						continue // contradicts what this path already knows
					}
					nl = k
				}
			}
			st := state{s, nl}
			if seen[st] {
				continue
			}
			seen[st] = true
			nn := &node{s: st, prev: n}
			hit, blocked := scan(s, 0)
			if hit {
				var path []*ssa.BasicBlock
				for x := nn; x != nil; x = x.prev {
					path = append([]*ssa.BasicBlock{x.s.b}, path...)
				}
				return false, "non-failing exit reachable without it: " + p.PathString(path)
			}
			if blocked {
				continue
			}
			queue = append(queue, nn)
		}
	}
	return true, ""
}

// resolveCell looks through a load of a local cell with a single store.
func resolveCell(v ssa.Value) ssa.Value { return canonObj(v) }

// ---------------------------------------------------------------------------------
// Argument roles: same-typed parameters that receive each other's value
// ---------------------------------------------------------------------------------

// ArgRoleSwap is a call site at which an argument's source carries the name of a
// different parameter of the callee than the one it is passed to.
type ArgRoleSwap struct {
	Call   *ssa.Call
	Callee *ssa.Function
	Detail string
}

func normIdent(s string) string {
	out := make([]rune, 0, len(s))
	for _, r := range s {
		if r == '_' {
			continue
		}
		if r >= 'A' && r <= 'Z' {
			r += 'a' - 'A'
		}
		out = append(out, r)
	}
	return string(out)
}

// ArgRoleSwaps inspects the static calls made by fns: when the callee has two parameters
// of one identical type, an argument that is a plain field load / parameter / call whose
// name equals (case- and underscore-insensitively) the name of the OTHER parameter while
// the other parameter receives something else is a swapped pair. Exact names only, so a
// report is either a real swap or a very misleading name.
func ArgRoleSwaps(fns []*ssa.Function) (swaps []ArgRoleSwap, nSites int) {
	srcName := func(v ssa.Value) string {
		for i := 0; i < 3; i++ {
			switch x := v.(type) {
			case *ssa.Convert:
				v = x.X
				continue
			case *ssa.ChangeType:
				v = x.X
				continue
			}
			break
		}
		switch x := v.(type) {
		case *ssa.Parameter:
			return normIdent(x.Name())
		case *ssa.UnOp:
			if fa, ok := x.X.(*ssa.FieldAddr); ok && x.Op == token.MUL {
				if f := core.FieldOf(fa); f != nil {
					return normIdent(f.Name())
				}
			}
			if al, ok := x.X.(*ssa.Alloc); ok && x.Op == token.MUL {
				return normIdent(al.Comment)
			}
		case *ssa.Field:
			if f := core.FieldOf(x); f != nil {
				return normIdent(f.Name())
			}
		case *ssa.Call:
			if x.Call.IsInvoke() {
				return normIdent(x.Call.Method.Name())
			}
			if cal := x.Call.StaticCallee(); cal != nil {
				return normIdent(cal.Name())
			}
		}
		return ""
	}
	for _, fn := range fns {
		for _, b := range fn.Blocks {
			for _, in := range b.Instrs {
				c, ok := in.(*ssa.Call)
				if !ok {
					continue
				}
				cal := c.Call.StaticCallee()
				if cal == nil || cal.Blocks == nil || len(cal.Params) != len(c.Call.Args) {
					continue
				}
				counted := false
				for i := range cal.Params {
					for j := i + 1; j < len(cal.Params); j++ {
						pi, pj := cal.Params[i], cal.Params[j]
						if !types.Identical(pi.Type(), pj.Type()) {
							continue
						}
						if !counted {
							nSites++
							counted = true
						}
						ni, nj := normIdent(pi.Name()), normIdent(pj.Name())
						if ni == nj || ni == "" || nj == "" {
							continue
						}
						ai, aj := srcName(c.Call.Args[i]), srcName(c.Call.Args[j])
						// arg i carries parameter j's name (and not its own), or vice versa
						if (ai == nj && ai != ni && aj != nj) || (aj == ni && aj != nj && ai != ni) {
							swaps = append(swaps, ArgRoleSwap{c, cal, "argument named like parameter `" + map[bool]string{true: pj.Name(), false: pi.Name()}[ai == nj] + "` is passed as `" + map[bool]string{true: pi.Name(), false: pj.Name()}[ai == nj] + "`"})
						}
					}
				}
			}
		}
	}
	return
}
