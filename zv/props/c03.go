package props

import (
	"fmt"
	"go/token"
	"strings"

	"golang.org/x/tools/go/ssa"

	"zv/core"
)

func init() { register("C03", "other", c03) }

const fnUpdateState = "(*0chain.net/chaincore/chain.Chain).updateState"

// C03 Each account's transactions apply once, in strict nonce order.
func c03(r *core.Report, p *core.Prog, thorough bool) {
	r.Explain = "Decided: the nonce check is the first effectful step of updateState and has the single shape stateNonce+1 != txnNonce → reject; every path to the commit passes incrementNonce for the same client; the nonce is stored exactly once per call with +1 and persisted; nobody else writes State.Nonce; the generator classifies with the same two comparisons on the same field. Not decided: transaction-pool ordering at run time."
	r.Rule("C03.first", "validateNonce(sctx, txn.ClientID, txn.Nonce) dominates contract execution, Validate and every transfer in updateState, and its error fails the transaction")
	r.Rule("C03.shape", "validateNonce: exactly one comparison involving the transaction nonce, canonical form stateNonce + 1 != txnNonce on whose true edge every exit fails; stateNonce is 0 or the Nonce of the state loaded for the same client")
	r.Rule("C03.increment", "incrementNonce(sctx, txn.ClientID) lies on every path to the commit (success and chargeable-error route) and its error fails the transaction")
	r.Rule("C03.once", "incrementNonce stores Nonce exactly once, value = loaded Nonce + 1, then persists that object under the same client id; error returned")
	r.Rule("C03.writers", "State.Nonce is written only by incrementNonce, the codec/clone of State, or on freshly constructed objects")
	r.Rule("C03.generator", "the generator's validateTransaction classifies txn.Nonce against state.Nonce with `> 1` future / `< 1` past and otherwise accepts")

	us := p.Func(fnUpdateState)
	vn := p.Func("(*" + pkgChain + ".Chain).validateNonce")
	in := p.Func("(*" + pkgChain + ".Chain).incrementNonce")
	if us == nil || vn == nil || in == nil {
		r.Unresolved("C03.first", "updateState/validateNonce/incrementNonce")
		return
	}
	// ---- first
	vcalls := core.CallsIn(us, false, core.NameIs(vn.String()))
	if r.Check(len(vcalls) == 1, "C03.first", "updateState:validateNonce-call", p.Pos(us.Pos()), fmt.Sprintf("%d calls", len(vcalls))) {
		vc := vcalls[0].Instr.(*ssa.Call)
		a := core.CallArgs(vc.Common())
		r.Check(strings.HasSuffix(describe(a[1]), "txn.ClientID") && strings.HasSuffix(describe(a[2]), "txn.Nonce"), "C03.first", "updateState:validateNonce-args", p.Pos(vc.Pos()),
			"called with "+describe(a[1])+", "+describe(a[2]))
		r.Check(core.ErrLeadsToFailure(vc), "C03.first", "updateState:validateNonce-err", p.Pos(vc.Pos()), "a wrong nonce must fail the transaction")
		effects := core.CallsIn(us, false, func(c *ssa.CallCommon) bool {
			n := core.CalleeName(c)
			return n == "(*"+pkgChain+".Chain).ExecuteSmartContract" || isSCtxCall(c, "Validate") || isSCtxCall(c, "AddTransfer") ||
				isSCtxCall(c, "AddSignedTransfer") || n == "(*"+pkgChain+".Chain).transferAmountWithAssert" || n == in.String() ||
				core.MethodName(c) == "MergeMPTChanges" || isSCtxCall(c, "GetClientBalance")
		})
		for _, e := range effects {
			ok := vc.Block().Dominates(e.Instr.Block()) && (vc.Block() != e.Instr.Block() || core.Reaches(vc, e.Instr))
			r.Check(ok, "C03.first", "updateState:nonce-before:"+core.MethodName(e.Common()), p.Pos(e.Pos()), "the nonce check must precede this step on every path")
		}
		r.Floor("C03.first", "effectful steps after the nonce check", len(effects), 8)
	}
	// ---- shape
	var txnNonce *ssa.Parameter
	for _, prm := range vn.Params {
		if prm.Name() == "txnNonce" {
			txnNonce = prm
		}
	}
	if txnNonce == nil {
		r.Unresolved("C03.shape", "validateNonce.txnNonce")
	} else {
		var cmps []*ssa.BinOp
		for _, ref := range *txnNonce.Referrers() {
			if b, ok := ref.(*ssa.BinOp); ok {
				switch b.Op {
				case token.EQL, token.NEQ, token.LSS, token.GTR, token.LEQ, token.GEQ:
					cmps = append(cmps, b)
				default:
					r.Fail("C03.shape", "validateNonce:txn-nonce-arith", p.Pos(b.Pos()), "transaction nonce is transformed before comparison: "+b.String())
				}
			}
		}
		if r.Check(len(cmps) == 1, "C03.shape", "validateNonce:single-comparison", p.Pos(vn.Pos()), fmt.Sprintf("%d comparisons involve the transaction nonce", len(cmps))) {
			c := cmps[0]
			other := c.X
			if c.X == ssa.Value(txnNonce) {
				other = c.Y
			}
			add, isAdd := other.(*ssa.BinOp)
			one := int64(0)
			var stNonce ssa.Value
			if isAdd && add.Op == token.ADD {
				if k, ok := core.ConstInt(add.Y); ok {
					one, stNonce = k, add.X
				} else if k, ok := core.ConstInt(add.X); ok {
					one, stNonce = k, add.Y
				}
			}
			okNext := isAdd && one == 1
			viaHelper := false
			if !okNext {
				// `next := nextNonce(state)`: a helper of the package that returns its argument's
				// Nonce + 1, and 1 when the argument is nil
				if hc, ok := other.(*ssa.Call); ok {
					if h := hc.Call.StaticCallee(); h != nil && h.Pkg != nil && h.Pkg.Pkg.Path() == pkgChain && h.Blocks != nil && len(hc.Call.Args) == 1 && len(h.Params) == 1 {
						all := true
						n := 0
						for _, ret := range core.Returns(h) {
							n++
							v := core.ResultValue(ret, 0)
							if k, isK := core.ConstInt(v); isK && k == 1 {
								if core.KnownNil(core.FactsAt(ret.Block()), h.Params[0]) != 1 {
									all = false
								}
								continue
							}
							a2, isA := v.(*ssa.BinOp)
							if !isA || a2.Op != token.ADD {
								all = false
								continue
							}
							k, isK := core.ConstInt(a2.Y)
							if !isK || k != 1 || !isFieldLoadOn(a2.X, h.Params[0], "Nonce") {
								all = false
							}
						}
						if all && n > 0 {
							okNext, viaHelper = true, true
							// the helper's argument is the state loaded for the client
							roots := core.RootDescs(core.Slice(hc.Call.Args[0]))
							for _, d := range roots {
								if !strings.Contains(d, "GetClientState") && d != "const:nil" {
									okNext = false
									r.Info["c03_next_helper_arg_roots"] = fmt.Sprint(roots)
								}
							}
						}
					}
				}
			}
			r.Check((c.Op == token.NEQ || c.Op == token.EQL) && okNext, "C03.shape", "validateNonce:canonical", p.Pos(c.Pos()),
				"comparison is `"+c.String()+"` with other side "+other.String()+" (want stateNonce + 1 compared with txnNonce, directly or through a helper returning Nonce + 1 / 1 for a missing state)")
			_ = viaHelper
			// reject edge
			for _, ref := range *c.Referrers() {
				if ifi, ok := ref.(*ssa.If); ok {
					idx := 0
					if c.Op == token.EQL {
						idx = 1
					}
					r.Check(core.FailsOnly(ifi.Block().Succs[idx], map[*ssa.BasicBlock]bool{}), "C03.shape", "validateNonce:reject-edge", p.Pos(c.Pos()), "mismatch edge must only fail")
					// the accept edge must reach a success exit without further conditions on nonce
				}
			}
			// the comparison is unconditional: every success exit lies on its accept edge
			okAll := true
			whyAll := ""
			for _, ret := range core.SuccessExits(vn) {
				g := false
				for _, f := range core.FactsAt(ret.Block()) {
					if f.Cond == ssa.Value(c) && f.Taken == (c.Op == token.EQL) {
						g = true
					}
				}
				if !g {
					okAll = false
					whyAll = "success exit at " + p.Pos(ret.Pos()) + " is reachable without the nonce comparison having matched"
				}
			}
			r.Check(okAll, "C03.shape", "validateNonce:comparison-on-every-accepting-path", p.Pos(c.Pos()), "no accepting path bypasses stateNonce + 1 == txnNonce (e.g. for a sender without a state entry); "+whyAll)
			// stateNonce provenance: phi(0, s.Nonce) with s loaded for fromClient
			if stNonce != nil {
				roots := core.RootDescs(core.Slice(stNonce))
				ok := true
				for _, d := range roots {
					if d != "const:0" && !strings.HasSuffix(d, ".Nonce") {
						ok = false
					}
				}
				hasNonce := false
				for _, d := range roots {
					if strings.HasSuffix(d, "GetClientState()#0.Nonce") {
						hasNonce = true
					}
				}
				r.Check(ok && hasNonce, "C03.shape", "validateNonce:state-nonce", p.Pos(c.Pos()), fmt.Sprintf("state nonce roots %v", roots))
			}
		}
		gcs := core.CallsIn(vn, false, func(c *ssa.CallCommon) bool { return isSCtxCall(c, "GetClientState") })
		if r.Check(len(gcs) == 1, "C03.shape", "validateNonce:loads-client", p.Pos(vn.Pos()), fmt.Sprintf("%d GetClientState calls", len(gcs))) {
			r.Check(describe(core.CallArgs(gcs[0].Common())[0]) == "fromClient", "C03.shape", "validateNonce:loads-same-client", p.Pos(gcs[0].Pos()), "state loaded for "+describe(core.CallArgs(gcs[0].Common())[0]))
		}
	}
	// ---- increment on every path to commit
	merges := core.CallsIn(us, false, core.MethodIs("MergeMPTChanges"))
	incs := core.CallsIn(us, false, core.NameIs(in.String()))
	if r.Check(len(merges) == 1 && len(incs) == 1, "C03.increment", "updateState:one-increment-one-commit", p.Pos(us.Pos()), fmt.Sprintf("increments=%d commits=%d", len(incs), len(merges))) {
		ic := incs[0].Instr.(*ssa.Call)
		merge := merges[0].Instr
		path, _, found := core.PathQuery{Fn: us, Barrier: func(x ssa.Instruction) bool { return x == ssa.Instruction(ic) }, EdgeOK: core.FeasibleEdge,
			Target: func(x ssa.Instruction) bool { return x == merge }}.Find()
		d := "every path to the commit increments the nonce"
		if found {
			d = "commit reachable without incrementing the nonce: " + p.PathString(path)
		}
		r.Check(!found, "C03.increment", "updateState:must-increment", p.Pos(ic.Pos()), d)
		r.Check(core.ErrLeadsToFailure(ic), "C03.increment", "updateState:increment-err", p.Pos(ic.Pos()), "increment failure must fail the transaction")
		a := core.CallArgs(ic.Common())
		r.Check(strings.HasSuffix(describe(a[1]), "txn.ClientID"), "C03.increment", "updateState:increment-client", p.Pos(ic.Pos()), "increments "+describe(a[1]))
		// the increment must land in the context that is committed: no re-creation of the
		// transaction trie/context may follow it (the chargeable-error path discards the
		// first context)
		for _, name := range []string{pkgChain + ".CreateTxnMPT", "(*" + pkgChain + ".Chain).NewStateContext"} {
			for i, rb := range findCalls(us, name) {
				r.Check(!core.Reaches(ic, rb), "C03.increment", fmt.Sprintf("updateState:increment-survives:%s:%d", rb.Call.Value.Name(), i), p.Pos(rb.Pos()),
					"a context re-creation reachable after the nonce increment would discard the increment on the chargeable-error path")
			}
		}
	}
	// ---- once
	nf := p.Field(pkgState, "State", "Nonce")
	if nf == nil {
		r.Unresolved("C03.once", "State.Nonce")
		return
	}
	// incrementNonce and the helpers only it calls (a helper extracted from it)
	fam := []*ssa.Function{in}
	inFam := map[*ssa.Function]bool{in: true}
	for changed := true; changed; {
		changed = false
		for _, f := range fam {
			for _, b := range f.Blocks {
				for _, x := range b.Instrs {
					c, ok := x.(*ssa.Call)
					if !ok {
						continue
					}
					h := c.Call.StaticCallee()
					if h == nil || inFam[h] || h.Pkg == nil || h.Pkg.Pkg.Path() != pkgChain || h.Blocks == nil {
						continue
					}
					if len(core.FieldWrites([]*ssa.Function{h}, nf)) == 0 {
						continue
					}
					private := true
					for _, caller := range p.ModFuncs() {
						if inFam[caller] {
							continue
						}
						if len(core.CallsIn(caller, true, func(cc *ssa.CallCommon) bool { return cc.StaticCallee() == h })) > 0 {
							private = false
						}
					}
					if private {
						inFam[h] = true
						fam = append(fam, h)
						changed = true
					}
				}
			}
		}
	}
	ws := core.FieldWrites(fam, nf)
	if r.Check(len(ws) == 1 && ws[0].Kind == "store", "C03.once", "incrementNonce:single-store", p.Pos(in.Pos()), fmt.Sprintf("%d stores to Nonce in incrementNonce and its private helpers", len(ws))) {
		w := ws[0]
		wf := w.Fn
		if wf != in {
			// the helper runs on every success path of incrementNonce and its failure is returned
			for _, hc := range findCallsTo(in, wf) {
				okM, whyM := MustPass(p, in, hc)
				r.Check(okM && core.ErrLeadsToFailure(hc), "C03.once", "incrementNonce:helper-on-every-path", p.Pos(hc.Pos()), "the helper that stores the nonce is crossed on every success path and its error is returned "+whyM)
			}
			r.Check(len(findCallsTo(in, wf)) == 1, "C03.once", "incrementNonce:helper-called-once", p.Pos(in.Pos()), "the storing helper is called exactly once")
		}
		add, ok := w.Val.(*ssa.BinOp)
		good := false
		if ok && add.Op == token.ADD {
			k, isK := core.ConstInt(add.Y)
			bo, path := core.BaseObject(add.X)
			wo, _ := core.BaseObject(w.Addr)
			good = isK && k == 1 && path == ".Nonce" && sameObj(bo, wo)
		}
		r.Check(good, "C03.once", "incrementNonce:plus-one", posOf(p, w.Instr), "stored value must be the same object's Nonce + 1")
		// no loop: the store's block is not in a cycle
		r.Check(!inCycle(w.Instr.Block()), "C03.once", "incrementNonce:not-in-loop", posOf(p, w.Instr), "increment must not repeat")
		scs := core.CallsIn(wf, false, func(c *ssa.CallCommon) bool { return isSCtxCall(c, "SetClientState") })
		if r.Check(len(scs) == 1, "C03.once", "incrementNonce:persist", p.Pos(in.Pos()), fmt.Sprintf("%d SetClientState calls", len(scs))) {
			sc := scs[0].Instr.(*ssa.Call)
			a := core.CallArgs(sc.Common())
			so, _ := core.BaseObject(a[1])
			wo, _ := core.BaseObject(w.Addr)
			// the key is incrementNonce's client parameter (handed through to the helper)
			keyOK := describe(a[0]) == "fromClient"
			if wf != in {
				keyOK = false
				if kp := core.ParamOf(a[0]); kp != nil {
					for _, hc := range findCallsTo(in, wf) {
						for i, hp := range wf.Params {
							if hp == kp && i < len(hc.Call.Args) && describe(hc.Call.Args[i]) == "fromClient" {
								keyOK = true
							}
						}
					}
				}
			}
			r.Check(keyOK && sameObj(so, wo), "C03.once", "incrementNonce:persist-same", p.Pos(sc.Pos()), "persists the incremented object under "+describe(a[0]))
			r.Check(core.ErrLeadsToFailure(sc), "C03.once", "incrementNonce:persist-err", p.Pos(sc.Pos()), "persist failure must be returned")
			r.Check(core.Reaches(w.Instr, sc), "C03.once", "incrementNonce:store-before-persist", p.Pos(sc.Pos()), "the increment must precede the persist")
			for _, ret := range core.SuccessExits(wf) {
				_, _, found := core.PathQuery{Fn: wf, Barrier: func(x ssa.Instruction) bool { return x == ssa.Instruction(sc) }, EdgeOK: core.FeasibleEdge,
					Target: func(x ssa.Instruction) bool { return x == ssa.Instruction(ret) }}.Find()
				r.Check(!found, "C03.once", fmt.Sprintf("incrementNonce:success-needs-persist@b%d", ret.Block().Index), p.Pos(ret.Pos()), "success exit must follow the persist")
			}
		}
	}
	// ---- writers
	nW := 0
	for _, w := range core.FieldWrites(p.ModFuncs(), nf) {
		nW++
		fn := core.EnclosingNamed(w.Fn).String()
		key := "nonce-writer:" + fn + ":" + w.Kind
		switch {
		case w.Kind == "store" && isFresh(w.Addr):
			r.Pass("C03.writers", key+":fresh", posOf(p, w.Instr), "construction")
		case inFam[core.EnclosingNamed(w.Fn)], fn == "(*"+pkgState+".State).Decode", fn == "(*"+pkgState+".State).Clone":
			r.Pass("C03.writers", key, posOf(p, w.Instr), "owner/codec")
		case isTooling(p, w.Fn):
			r.Pass("C03.writers", key+":tooling", posOf(p, w.Instr), "not linked into/reachable from a node binary")
		default:
			r.Fail("C03.writers", key, posOf(p, w.Instr), "State.Nonce written outside incrementNonce")
		}
	}
	r.Floor("C03.writers", "State.Nonce writers", nW, 3)
	// ---- generator
	vt := p.Func("(*0chain.net/miner.Chain).validateTransaction")
	if vt == nil {
		r.Unresolved("C03.generator", "miner.validateTransaction")
		return
	}
	classify := func(vt *ssa.Function, isTxn, isState func(ssa.Value) bool) (fut, past int) {
		for _, b := range vt.Blocks {
			for _, x := range b.Instrs {
				bo, ok := x.(*ssa.BinOp)
				if !ok || (bo.Op != token.GTR && bo.Op != token.LSS) {
					continue
				}
				k, isK := core.ConstInt(bo.Y)
				if !isK || k != 1 {
					continue
				}
				onState := false
				if sub, ok := bo.X.(*ssa.BinOp); ok && sub.Op == token.SUB {
					onState = isTxn(sub.X) && isState(sub.Y)
				} else if isTxn(bo.X) {
					onState = true // absent state: nonce compared with 1 directly
				}
				if !onState {
					continue
				}
				// the true edge must return the matching sentinel
				for _, ref := range *bo.Referrers() {
					if ifi, ok := ref.(*ssa.If); ok {
						ts := ifi.Block().Succs[0]
						if ret, ok := ts.Instrs[len(ts.Instrs)-1].(*ssa.Return); ok {
							d := describe(ret.Results[len(ret.Results)-1])
							if bo.Op == token.GTR && strings.Contains(d, "FutureTransaction") {
								fut++
							}
							if bo.Op == token.LSS && strings.Contains(d, "PastTransaction") {
								past++
							}
						}
					}
				}
			}
		}
		return
	}
	fut, past := classify(vt, func(v ssa.Value) bool { return strings.HasSuffix(describe(v), "txn.Nonce") }, func(v ssa.Value) bool { return strings.HasSuffix(describe(v), ".Nonce") })
	okGen := fut == 2 && past == 2
	how := "inline"
	if !okGen {
		// the two arms may share a helper classify(txnNonce, stateNonce) called with the state's nonce and with 0
		for _, b := range vt.Blocks {
			for _, x := range b.Instrs {
				c, ok := x.(*ssa.Call)
				if !ok {
					continue
				}
				h := c.Call.StaticCallee()
				if h == nil || h.Pkg == nil || h.Pkg != vt.Pkg || h.Blocks == nil || len(h.Params) < 2 {
					continue
				}
				n := len(h.Params)
				hf, hp := classify(h, func(v ssa.Value) bool { return v == ssa.Value(h.Params[n-2]) }, func(v ssa.Value) bool { return v == ssa.Value(h.Params[n-1]) })
				if hf != 1 || hp != 1 {
					continue
				}
				withState, withZero := 0, 0
				for _, hc := range findCallsTo(vt, h) {
					a := hc.Call.Args
					if !strings.HasSuffix(describe(a[len(a)-2]), "txn.Nonce") {
						continue
					}
					if k, isK := core.ConstInt(a[len(a)-1]); isK && k == 0 {
						withZero++
					} else if strings.HasSuffix(describe(a[len(a)-1]), ".Nonce") {
						withState++
					}
					// the helper's verdict is what validateTransaction returns
					used := false
					for _, ret := range core.Returns(vt) {
						_, leaves := FlowLoads(core.ResultValue(ret, len(ret.Results)-1))
						for _, l := range leaves {
							if l == ssa.Value(hc) {
								used = true
							}
						}
					}
					if !used {
						withState, withZero = -10, -10
					}
				}
				if withState >= 1 && withZero >= 1 {
					okGen, how = true, "through "+h.Name()+"(txn.Nonce, state nonce | 0)"
				}
			}
		}
	}
	r.Check(okGen, "C03.generator", "validateTransaction:classification", p.Pos(vt.Pos()), fmt.Sprintf("future(>1)=%d past(<1)=%d inline (present and absent state arms); %s", fut, past, how))
}

// sameObj: identical base value or two loads of the same local variable.
func sameObj(a, b ssa.Value) bool {
	if a == b {
		return true
	}
	return core.SameValue(a, b)
}

// inCycle reports whether b can reach itself.
func inCycle(b *ssa.BasicBlock) bool {
	seen := map[*ssa.BasicBlock]bool{}
	stack := append([]*ssa.BasicBlock{}, b.Succs...)
	for len(stack) > 0 {
		x := stack[len(stack)-1]
		stack = stack[:len(stack)-1]
		if x == b {
			return true
		}
		if seen[x] {
			continue
		}
		seen[x] = true
		stack = append(stack, x.Succs...)
	}
	return false
}
