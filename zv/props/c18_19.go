package props

import (
	"fmt"
	"go/token"
	"strings"

	"golang.org/x/tools/go/ssa"

	"zv/core"
)

func init() {
	register("C18", "other", c18)
	register("C19", "other", c19)
}

const pkgZCN = "0chain.net/smartcontract/zcnsc"

// WrapNilSite is a call to github.com/pkg/errors.{Wrap,Wrapf,WithMessage,WithStack}
// whose error argument is not provably non-nil: those helpers return nil for nil.
type WrapNilSite struct {
	Call *ssa.Call
	Fn   *ssa.Function
}

func WrapNilSites(fns []*ssa.Function) (sites []WrapNilSite, total int) {
	for _, fn := range fns {
		for _, cs := range core.CallsIn(fn, false, func(c *ssa.CallCommon) bool {
			n := core.CalleeName(c)
			return n == "github.com/pkg/errors.Wrap" || n == "github.com/pkg/errors.Wrapf" || n == "github.com/pkg/errors.WithMessage" ||
				n == "github.com/pkg/errors.WithMessagef" || n == "github.com/pkg/errors.WithStack"
		}) {
			call, ok := cs.Instr.(*ssa.Call)
			if !ok {
				continue
			}
			total++
			arg := call.Call.Args[0]
			if core.KnownNil(core.FactsAt(call.Block()), arg) == -1 {
				continue
			}
			// the argument is freshly constructed (errors.New/fmt.Errorf) or a sentinel
			if c2, _ := core.CallOf(arg); c2 != nil {
				n := core.CalleeName(c2.Common())
				if n == "errors.New" || n == "fmt.Errorf" || strings.HasSuffix(n, ".NewError") || strings.HasSuffix(n, ".NewErrorf") {
					continue
				}
			}
			if ld, ok := arg.(*ssa.UnOp); ok {
				if g, ok := ld.X.(*ssa.Global); ok && core.IsSentinelErr(g) {
					continue
				}
			}
			if _, ok := arg.(*ssa.MakeInterface); ok {
				continue
			}
			sites = append(sites, WrapNilSite{call, fn})
		}
	}
	return
}

// failsWhen: some failure exit of fn is dominated by the comparison fact (x op y).
func failsWhen(fn *ssa.Function, xSuffix string, op token.Token, ySuffix string) bool {
	for _, ret := range core.Returns(fn) {
		if core.ClassifyReturn(ret) != core.ExitSuccess && HasCmp(ret.Block(), xSuffix, op, ySuffix) {
			return true
		}
	}
	return false
}

// guardDominates: the sink is dominated by the negation of (x op y), i.e. control can
// reach it only when the rejection test was false.
func guardDominates(sink ssa.Instruction, xSuffix string, op token.Token, ySuffix string) bool {
	return HasCmp(sink.Block(), xSuffix, negate(op), ySuffix)
}

// C18 Bridge mints need a quorum of authorizers and each nonce mints once.
func c18(r *core.Report, p *core.Prog, thorough bool) {
	r.Explain = "Decided: the mint transfer is dominated by receiver==submitter, amount>=minimum, a successful unique-nonce insertion, successful verification of the de-duplicated signature set and len(unique) >= threshold; de-duplication is keyed by authorizer id through a map; each signature is verified against the key of the authorizer loaded by that id over a hash that covers txn id, amount, nonce and receiver, and a false result or an error rejects (no nil-wrapped rejection); the client receives MinusCoin(amount, share) and the same share goes to an authorizer's stake pool. Not decided: partition set semantics (C25), threshold arithmetic."
	r.Rule("C18.guards", "zcnsc:mint: AddTransfer dominated by ReceivingClientID==ClientID, Amount>=MinMintAmount, PartitionWZCNMintedNonceAdd success, verifySignatures(unique) success and len(unique)>=threshold")
	r.Rule("C18.unique", "getUniqueSignatures de-duplicates by authorizer id through a keyed map; no Compact on an unsorted slice")
	r.Rule("C18.verify", "verifySignatures: authorizer loaded by the signature's id, its public key set on the scheme, Verify(signature, GetStringToSign()) with error and false both rejecting")
	r.Rule("C18.wrap-nil", "no pkg/errors.Wrap* of a possibly-nil error on a rejection path in the bridge contract (Wrap(nil) is nil: the rejection would become acceptance)")
	r.Rule("C18.hash", "GetStringToSign covers EthereumTxnID, Amount, Nonce, ReceivingClientID")
	r.Rule("C18.amounts", "client receives MinusCoin(payload.Amount, share)#0 from the contract address; the same share is passed to DistributeRewards; stake pool saved on success")
	r.Rule("C18.nonce", "PartitionWZCNMintedNonceAdd: Add (duplicate-rejecting) checked, then Save, both errors returned")
	h := BuildHandlers(p)
	mints := h.Get("zcnsc:mint")
	if len(mints) != 1 {
		r.Unresolved("C18.guards", "zcnsc:mint handler")
		return
	}
	// signers are told apart by the raw id string (getUniqueSignatures); the same raw id must
	// select the authorizer whose key verifies the signature: no folding / trimming of ids
	// anywhere in the mint call tree inside the contract
	r.Rule("C18.signer-identity", "no case-folding or trimming (strings.ToLower/ToUpper/Title/TrimSpace/Trim*/Fields/EqualFold) is applied to a value in the mint call tree of the bridge contract: distinct id strings must stay distinct authorizers, or one authorizer counts several times toward the quorum")
	{
		nonInjective := map[string]bool{"strings.ToLower": true, "strings.ToUpper": true, "strings.Title": true, "strings.ToTitle": true, "strings.TrimSpace": true, "strings.Trim": true,
			"strings.TrimLeft": true, "strings.TrimRight": true, "strings.TrimFunc": true, "strings.TrimPrefix": true, "strings.TrimSuffix": true, "strings.Fields": true, "strings.EqualFold": true}
		cl := StaticClosure(mints, func(f *ssa.Function) bool { return f.Pkg == nil || f.Pkg.Pkg.Path() != mints[0].Pkg.Pkg.Path() })
		nCalls := 0
		for _, f := range cl {
			for _, b := range f.Blocks {
				for _, in := range b.Instrs {
					c, ok := in.(*ssa.Call)
					if !ok {
						continue
					}
					nCalls++
					if nonInjective[core.CalleeName(c.Common())] {
						r.Fail("C18.signer-identity", f.Name()+":"+core.CalleeName(c.Common()), p.Pos(c.Pos()), "an identifier is normalised on the way to a lookup while signers are de-duplicated by the raw string")
					}
				}
			}
		}
		r.Pass("C18.signer-identity", "mint-call-tree", p.Pos(mints[0].Pos()), fmt.Sprintf("%d functions, %d calls scanned", len(cl), nCalls))
		r.Floor("C18.signer-identity", "functions in the mint call tree", len(cl), 5)
	}
	// the handler may delegate to an internal mint(trans, input, ctx, seed)
	mint := mints[0]
	if len(TransferSites([]*ssa.Function{mint})) == 0 {
		for _, cs := range core.CallsIn(mint, false, nil) {
			if cal := core.StaticCallee(cs.Common()); cal != nil && cal.Pkg == mint.Pkg && len(TransferSites([]*ssa.Function{cal})) > 0 {
				mint = cal
			}
		}
	}
	ts := TransferSites([]*ssa.Function{mint})
	if !r.Check(len(ts) == 1 && ts[0].Resolved, "C18.guards", "mint:one-transfer", p.Pos(mint.Pos()), fmt.Sprintf("%d transfers in %s", len(ts), mint.Name())) {
		return
	}
	t := ts[0]
	sink := t.Site.Instr
	addrs := contractAddresses(p)
	fromOK := false
	if c, ok := t.From.(*ssa.Const); ok && c.Value != nil {
		fromOK = addrs[strings.Trim(c.Value.ExactString(), "\"")] == "zcnsc"
	}
	r.Check(fromOK && strings.HasSuffix(describe(t.To), ".ClientID"), "C18.amounts", "mint:transfer-parties", p.Pos(t.Site.Pos()), describe(t.From)+" → "+describe(t.To))
	r.Check(guardDominates(sink, ".ReceivingClientID", token.NEQ, ".ClientID"), "C18.guards", "mint:receiver-is-submitter", p.Pos(t.Site.Pos()), "payload.ReceivingClientID != trans.ClientID must reject")
	r.Check(guardDominates(sink, ".Amount", token.LSS, ".MinMintAmount"), "C18.guards", "mint:min-amount", p.Pos(t.Site.Pos()), "payload.Amount < gn.MinMintAmount must reject")
	// the nonce insertion: in mint or in a helper of the package whose failure fails mint
	var nc *Lifted
	for _, l := range LiftCalls(mint, core.NameIs(pkgZCN+".PartitionWZCNMintedNonceAdd"), 1) {
		l := l
		if l.Block().Dominates(sink.Block()) && (l.Block() != sink.Block() || core.Reaches(l.Site, sink)) && l.ErrFails() {
			nc = &l
		}
	}
	r.Check(nc != nil, "C18.guards", "mint:nonce-unique", p.Pos(t.Site.Pos()), "the mint nonce must be inserted (duplicate-rejecting) before the transfer and a failure must abort")
	if nc != nil {
		r.Check(strings.HasSuffix(describe(nc.Arg(1)), ".Nonce"), "C18.guards", "mint:nonce-arg", p.Pos(nc.Pos()), "inserts "+describe(nc.Arg(1)))
	}
	vc := checkedCallBefore(mint, "(*"+pkgZCN+".MintPayload).verifySignatures", sink)
	var uniq ssa.Value
	if r.Check(vc != nil, "C18.guards", "mint:signatures-verified", p.Pos(t.Site.Pos()), "verifySignatures must succeed before the transfer") {
		a := core.CallArgs(vc.Common())
		if c2, _ := core.CallOf(a[0]); c2 != nil && core.MethodName(c2.Common()) == "getUniqueSignatures" {
			uniq = a[0]
		}
		r.Check(uniq != nil, "C18.guards", "mint:verifies-unique-set", p.Pos(vc.Pos()), "the verified set must be the de-duplicated one, got "+describe(a[0]))
	}
	// threshold comparison on the unique set
	thrOK := false
	for _, c := range CmpFacts(sink.Block()) {
		if c.Op == token.GEQ {
			if l, ok := c.X.(*ssa.Call); ok && core.CalleeName(l.Common()) == "builtin.len" && uniq != nil && l.Call.Args[0] == uniq {
				// threshold value: derived from PercentAuthorizers and the authorizer count
				ds := strings.Join(core.DeepRoots(c.Y), ",")
				if strings.Contains(ds, "PercentAuthorizers") && strings.Contains(ds, "getAuthorizerCount") {
					thrOK = true
				}
			}
		}
	}
	r.Check(thrOK, "C18.guards", "mint:quorum", p.Pos(t.Site.Pos()), "len(uniqueSignatures) >= round(PercentAuthorizers × authorizer count) must dominate the transfer")
	// ---- unique
	gu := p.Func("(*" + pkgZCN + ".MintPayload).getUniqueSignatures")
	if gu == nil {
		r.Unresolved("C18.unique", "getUniqueSignatures")
	} else {
		keyed := false
		for _, cs := range core.CallsIn(gu, false, core.MethodIs("Put")) {
			if strings.HasSuffix(describe(core.CallArgs(cs.Common())[0]), ".ID") {
				keyed = true
			}
		}
		for _, b := range gu.Blocks {
			for _, in := range b.Instrs {
				if mu, ok := in.(*ssa.MapUpdate); ok && strings.HasSuffix(describe(mu.Key), ".ID") {
					keyed = true
				}
			}
		}
		r.Check(keyed, "C18.unique", "getUniqueSignatures:keyed-by-id", p.Pos(gu.Pos()), "signatures must be collected in a map keyed by authorizer id")
		for _, cs := range core.CallsIn(gu, false, func(c *ssa.CallCommon) bool { return strings.Contains(core.CalleeName(c), "slices.Compact") }) {
			r.Fail("C18.unique", "getUniqueSignatures:compact", p.Pos(cs.Pos()), "Compact only removes adjacent duplicates; without a prior sort an authorizer repeated at non-adjacent positions is counted twice")
		}
		// result derives from the keyed collection
		fromMap := false
		for _, ret := range core.Returns(gu) {
			ds := strings.Join(core.RootDescs(core.Slice(ret.Results[0])), ",")
			if strings.Contains(ds, "GetValues") || strings.Contains(ds, "sortedmap") {
				fromMap = true
			}
		}
		r.Check(fromMap || !keyed, "C18.unique", "getUniqueSignatures:returns-map-values", p.Pos(gu.Pos()), "the returned set must be the values of the keyed collection")
	}
	// ---- verify
	vs := p.Func("(*" + pkgZCN + ".MintPayload).verifySignatures")
	if vs == nil {
		r.Unresolved("C18.verify", "verifySignatures")
	} else {
		ga := findCalls(vs, pkgZCN+".GetAuthorizerNode")
		if r.Check(len(ga) == 1, "C18.verify", "verifySignatures:loads-authorizer", p.Pos(vs.Pos()), fmt.Sprintf("%d GetAuthorizerNode calls", len(ga))) {
			r.Check(strings.HasSuffix(describe(ga[0].Call.Args[0]), ".ID") && core.ErrLeadsToFailure(ga[0]), "C18.verify", "verifySignatures:authorizer-by-id", p.Pos(ga[0].Pos()), "registered authorizer looked up by the signature's id; unknown id rejects")
		}
		ver := methodCalls(vs, "Verify")
		if r.Check(len(ver) == 1, "C18.verify", "verifySignatures:verify-call", p.Pos(vs.Pos()), fmt.Sprintf("%d Verify calls", len(ver))) {
			a := core.CallArgs(ver[0].Common())
			c2, _ := core.CallOf(a[1])
			r.Check(strings.HasSuffix(describe(a[0]), ".Signature") && c2 != nil && core.MethodName(c2.Common()) == "GetStringToSign", "C18.verify", "verifySignatures:args", p.Pos(ver[0].Pos()), "Verify("+describe(a[0])+", "+describe(a[1])+")")
			r.Check(core.ErrLeadsToFailure(ver[0]), "C18.verify", "verifySignatures:err-rejects", p.Pos(ver[0].Pos()), "verification error rejects")
			r.Check(boolResultRejects(ver[0]), "C18.verify", "verifySignatures:false-rejects", p.Pos(ver[0].Pos()), "a false verification result must lead to a non-nil error")
		}
		sk := methodCalls(vs, "SetPublicKey")
		if r.Check(len(sk) == 1, "C18.verify", "verifySignatures:sets-key", p.Pos(vs.Pos()), fmt.Sprintf("%d SetPublicKey calls", len(sk))) {
			r.Check(strings.HasSuffix(describe(core.CallArgs(sk[0].Common())[0]), ".PublicKey") && strings.Contains(describe(core.CallArgs(sk[0].Common())[0]), "GetAuthorizerNode") && core.ErrLeadsToFailure(sk[0]), "C18.verify", "verifySignatures:key-of-authorizer", p.Pos(sk[0].Pos()), "key is "+describe(core.CallArgs(sk[0].Common())[0]))
		}
		// the loop covers every element: the range is over the parameter
		r.Check(len(core.Loops(vs)) == 1, "C18.verify", "verifySignatures:loops-over-all", p.Pos(vs.Pos()), "one loop over the signature set")
	}
	// ---- wrap-nil over the bridge contract
	var zfns []*ssa.Function
	for _, fn := range p.FuncsIn(pkgZCN) {
		if !isTooling(p, fn) {
			zfns = append(zfns, fn)
		}
	}
	sites, total := WrapNilSites(zfns)
	r.Info["pkg_errors_wrap_sites_zcnsc"] = total
	r.Floor("C18.wrap-nil", "pkg/errors wrap sites in zcnsc", total, 5)
	for _, s := range sites {
		r.Fail("C18.wrap-nil", "wrap-nil:"+core.EnclosingNamed(s.Fn).String(), p.Pos(s.Call.Pos()), "errors."+core.MethodName(s.Call.Common())+"("+describe(s.Call.Call.Args[0])+", …) can be reached with a nil error: the function then returns nil (success) on a rejection path")
	}
	if len(sites) == 0 {
		r.Pass("C18.wrap-nil", "none", "", fmt.Sprintf("all %d wrap sites are dominated by err != nil", total))
	}
	// ---- hash
	gs := p.Func("(*" + pkgZCN + ".MintPayload).GetStringToSign")
	if gs == nil {
		r.Unresolved("C18.hash", "GetStringToSign")
	} else {
		cov := HashCoverage(p, gs)
		for _, f := range []string{"EthereumTxnID", "Amount", "Nonce", "ReceivingClientID"} {
			r.Check(covHas(cov, f), "C18.hash", "GetStringToSign:"+f, p.Pos(gs.Pos()), "field must be signed by the authorizers")
		}
	}
	// ---- amounts
	var share ssa.Value
	for _, c := range findCalls(mint, pkgCurr+".MinusCoin") {
		if strings.HasSuffix(describe(c.Call.Args[0]), ".Amount") {
			share = c.Call.Args[1]
			r.Check(core.ErrLeadsToFailure(c), "C18.amounts", "mint:minus-err", p.Pos(c.Pos()), "underflow aborts")
			// the result is what ends up transferred: stored to payload.Amount, which the transfer reads
			stored := false
			for _, ref := range *c.Referrers() {
				if e, ok := ref.(*ssa.Extract); ok && e.Index == 0 {
					for _, a := range core.ValueAliases(e) {
						for _, r2 := range *a.Referrers() {
							if st, ok := r2.(*ssa.Store); ok {
								if f := core.FieldOf(st.Addr); f != nil && f.Name() == "Amount" {
									stored = true
								}
							}
						}
					}
				}
			}
			_, amtPath := core.BaseObject(t.Amount)
			r.Check(stored && amtPath == ".Amount", "C18.amounts", "mint:net-amount-transferred", p.Pos(c.Pos()), "the transfer pays payload.Amount after it was reduced by the fee share")
		}
	}
	r.Check(share != nil, "C18.amounts", "mint:fee-subtracted", p.Pos(mint.Pos()), "client amount = MinusCoin(payload.Amount, share)")
	dr := methodCalls(mint, "DistributeRewards")
	if r.Check(len(dr) == 1, "C18.amounts", "mint:fee-distributed", p.Pos(mint.Pos()), fmt.Sprintf("%d DistributeRewards calls", len(dr))) {
		a := core.CallArgs(dr[0].Common())
		r.Check(share != nil && core.SameValue(a[0], share), "C18.amounts", "mint:same-share", p.Pos(dr[0].Pos()), "the share taken off the client's amount is the share credited to the authorizer")
		r.Check(core.ErrLeadsToFailure(dr[0]), "C18.amounts", "mint:distribute-err", p.Pos(dr[0].Pos()), "distribution error aborts")
		sv := methodCalls(mint, "save")
		if r.Check(len(sv) >= 1, "C18.amounts", "mint:stake-pool-saved", p.Pos(mint.Pos()), "the credited stake pool is saved") {
			ok, w := MustPassFrom(p, mint, dr[0], sv[len(sv)-1])
			r.Check(ok, "C18.amounts", "mint:save-after-credit", p.Pos(sv[len(sv)-1].Pos()), "saved on every success path after the credit; "+w)
		}
	}
	// ---- nonce partition
	pn := p.Func(pkgZCN + ".PartitionWZCNMintedNonceAdd")
	if pn == nil {
		r.Unresolved("C18.nonce", "PartitionWZCNMintedNonceAdd")
	} else {
		ad := methodCalls(pn, "Add")
		sv := methodCalls(pn, "Save")
		if r.Check(len(ad) == 1 && len(sv) == 1, "C18.nonce", "PartitionWZCNMintedNonceAdd:calls", p.Pos(pn.Pos()), fmt.Sprintf("Add=%d Save=%d", len(ad), len(sv))) {
			r.Check(core.ErrLeadsToFailure(ad[0]) && Before(ad[0], sv[0]), "C18.nonce", "PartitionWZCNMintedNonceAdd:add-checked", p.Pos(ad[0].Pos()), "a duplicate nonce (Add error) aborts before anything is saved")
			svRet := false
			for _, ref := range *sv[0].Referrers() {
				if _, ok := ref.(*ssa.Return); ok {
					svRet = true
				}
			}
			r.Check(svRet || core.ErrLeadsToFailure(sv[0]), "C18.nonce", "PartitionWZCNMintedNonceAdd:save-returned", p.Pos(sv[0].Pos()), "save error returned")
		}
	}
}

// C19 Bridge burns lock the value and advance the burn nonce by one.
func c19(r *core.Report, p *core.Prog, thorough bool) {
	r.Explain = "Decided: every effect of zcnsc:burn (nonce increment, save, transfer, events) is dominated by Value >= MinBurnAmount and a non-empty target address; the burn nonce of the node loaded for the payload's address is incremented exactly once by one and saved; the transfer is (sender → bridge address, txn value); the response and events carry the same value, nonce and address. Not decided: cross-transaction sequencing."
	r.Rule("C19.guards", "zcnsc:burn effects dominated by trans.Value >= gn.MinBurnAmount and payload.EthereumAddress != \"\"")
	r.Rule("C19.nonce", "BurnNonce incremented exactly once (+1, not in a loop) on the user node loaded for payload.EthereumAddress; that node saved on every success path; save error aborts")
	r.Rule("C19.transfer", "AddTransfer(trans.ClientID → zcnsc ADDRESS, trans.Value) on every success path; error aborts")
	r.Rule("C19.report", "response and burn-ticket event carry trans.Value, the incremented nonce and the payload's address; the authorizer-burn event is indexed by the burner")
	h := BuildHandlers(p)
	bs := h.Get("zcnsc:burn")
	if len(bs) != 1 {
		r.Unresolved("C19.guards", "zcnsc:burn handler")
		return
	}
	burn := bs[0]
	ts := TransferSites([]*ssa.Function{burn})
	if !r.Check(len(ts) == 1 && ts[0].Resolved, "C19.transfer", "burn:one-transfer", p.Pos(burn.Pos()), fmt.Sprintf("%d transfers", len(ts))) {
		return
	}
	t := ts[0]
	addrs := contractAddresses(p)
	toOK := false
	if c, ok := t.To.(*ssa.Const); ok && c.Value != nil {
		toOK = addrs[strings.Trim(c.Value.ExactString(), "\"")] == "zcnsc"
	}
	r.Check(describe(t.From) == "trans.ClientID" && toOK && describe(t.Amount) == "trans.Value", "C19.transfer", "burn:transfer-args", p.Pos(t.Site.Pos()), describe(t.From)+" → "+describe(t.To)+" : "+describe(t.Amount))
	ok, w := MustPass(p, burn, t.Site.Instr)
	r.Check(ok, "C19.transfer", "burn:transfer-on-every-success", p.Pos(t.Site.Pos()), w)
	if c, isC := t.Site.Instr.(*ssa.Call); isC {
		r.Check(core.ErrLeadsToFailure(c), "C19.transfer", "burn:transfer-err", p.Pos(c.Pos()), "transfer error aborts")
	}
	// effects
	nf := p.Field(pkgZCN, "UserNode", "BurnNonce")
	if nf == nil {
		r.Unresolved("C19.nonce", "UserNode.BurnNonce")
		return
	}
	ws := core.FieldWrites([]*ssa.Function{burn}, nf)
	var effects []ssa.Instruction
	effects = append(effects, t.Site.Instr)
	for _, w := range ws {
		effects = append(effects, w.Instr)
	}
	// Save / EmitEvent made by burn or for it by a helper of the package: judged at the site in burn
	lifted := LiftCalls(burn, func(c *ssa.CallCommon) bool {
		m := core.MethodName(c)
		return m == "Save" || ((m == "EmitEvent") && isSCtxCall(c, m))
	}, 1)
	for _, l := range lifted {
		effects = append(effects, l.Site)
	}
	for i, e := range effects {
		g1 := HasCmp(e.Block(), ".Value", token.GEQ, ".MinBurnAmount")
		g2 := HasCmp(e.Block(), ".EthereumAddress", token.NEQ, "\"\"")
		r.Check(g1 && g2, "C19.guards", fmt.Sprintf("burn:effect:%d", i), posOf(p, e), fmt.Sprintf("value>=MinBurnAmount:%v address!=\"\":%v", g1, g2))
	}
	r.Floor("C19.guards", "burn effects", len(effects), 5)
	// nonce
	if r.Check(len(ws) == 1 && ws[0].Kind == "store", "C19.nonce", "burn:single-increment", p.Pos(burn.Pos()), fmt.Sprintf("%d stores to BurnNonce", len(ws))) {
		w := ws[0]
		add, isAdd := w.Val.(*ssa.BinOp)
		good := false
		if isAdd && add.Op == token.ADD {
			k, isK := core.ConstInt(add.Y)
			bo, pth := core.BaseObject(add.X)
			wo, _ := core.BaseObject(w.Addr)
			good = isK && k == 1 && pth == ".BurnNonce" && sameObj(bo, wo)
		}
		r.Check(good && !inCycle(w.Instr.Block()), "C19.nonce", "burn:plus-one", posOf(p, w.Instr), "BurnNonce = BurnNonce + 1, once")
		wo, _ := core.BaseObject(w.Addr)
		loadedFor := ""
		if c, _ := core.CallOf(wo); c != nil && core.CalleeName(c.Common()) == pkgZCN+".GetUserNode" {
			loadedFor = describe(c.Call.Args[0])
			r.Check(core.ErrLeadsToFailure(c), "C19.nonce", "burn:load-err", p.Pos(c.Pos()), "load error aborts")
		}
		r.Check(strings.HasSuffix(loadedFor, ".EthereumAddress"), "C19.nonce", "burn:node-of-target-address", posOf(p, w.Instr), "the incremented node was loaded for "+loadedFor)
		saved := false
		for _, c := range methodCalls(burn, "Save") {
			ro, _ := core.BaseObject(core.Receiver(c.Common()))
			if sameObj(ro, wo) {
				okp, wmsg := MustPassFrom(p, burn, w.Instr, c)
				r.Check(okp && core.ErrLeadsToFailure(c), "C19.nonce", "burn:saved", p.Pos(c.Pos()), "the incremented node is saved on every success path and a save error aborts; "+wmsg)
				saved = true
			}
		}
		r.Check(saved, "C19.nonce", "burn:save-call", p.Pos(burn.Pos()), "the incremented node must be saved")
	}
	// report: literals, in burn or in a helper it calls (fields then bound to the call's arguments)
	type litIn struct {
		l    structLit
		bind func(ssa.Value) ssa.Value
	}
	var lits []litIn
	for _, l := range literalsOfAny(burn) {
		lits = append(lits, litIn{l, func(v ssa.Value) ssa.Value { return v }})
	}
	for _, cs := range core.CallsIn(burn, false, nil) {
		hc, ok := cs.Instr.(*ssa.Call)
		h := core.StaticCallee(cs.Common())
		if !ok || h == nil || h.Blocks == nil || h.Pkg != burn.Pkg || len(h.Params) != len(hc.Call.Args) {
			continue
		}
		bind := map[*ssa.Parameter]ssa.Value{}
		for i, prm := range h.Params {
			bind[prm] = hc.Call.Args[i]
		}
		for _, l := range literalsOfAny(h) {
			lits = append(lits, litIn{l, func(v ssa.Value) ssa.Value {
				if v == nil {
					return nil
				}
				return core.BindValue(v, bind)
			}})
		}
	}
	for _, li := range lits {
		l := li.l
		fd := func(n string) string { return describe(li.bind(l.Fields[n])) }
		tn := core.NamedName(l.Alloc.Type())
		switch {
		case strings.HasSuffix(tn, ".BurnPayloadResponse"):
			r.Check(fd("Amount") == "trans.Value" && strings.HasSuffix(fd("Nonce"), ".BurnNonce") && strings.HasSuffix(fd("EthereumAddress"), ".EthereumAddress"), "C19.report", "burn:response", posOf(p, l.Alloc),
				fmt.Sprintf("amount=%s nonce=%s address=%s", fd("Amount"), fd("Nonce"), fd("EthereumAddress")))
		case strings.HasSuffix(tn, ".BurnTicket"):
			r.Check(fd("Amount") == "trans.Value" && strings.HasSuffix(fd("Nonce"), ".BurnNonce") && strings.HasSuffix(fd("EthereumAddress"), ".EthereumAddress"), "C19.report", "burn:ticket-event", posOf(p, l.Alloc),
				fmt.Sprintf("amount=%s nonce=%s address=%s", fd("Amount"), fd("Nonce"), fd("EthereumAddress")))
		}
	}
	for _, l := range lifted {
		if core.MethodName(l.Call.Common()) != "EmitEvent" {
			continue
		}
		a := l.CallArgs()
		tag := describe(a[1])
		idx := describe(a[2])
		if k, ok := core.ConstInt(a[1]); ok {
			tag = eventTagName(p, k)
		}
		switch tag {
		case "TagAuthorizerBurn":
			r.Check(idx == "trans.ClientID", "C19.report", "burn:authorizer-burn-index", p.Pos(l.Pos()), "indexed by "+idx+" (the burner: burns of different clients must not share an index, the merger keeps one event per index)")
		case "TagAddBurnTicket":
			r.Check(strings.HasSuffix(idx, ".EthereumAddress"), "C19.report", "burn:ticket-index", p.Pos(l.Pos()), "indexed by "+idx)
		}
	}
}

// eventTagName resolves an event tag constant value to its name.
func eventTagName(p *core.Prog, v int64) string {
	if n, ok := tagNames(p)[v]; ok {
		return n
	}
	return fmt.Sprint(v)
}
