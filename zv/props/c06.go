package props

import (
	"fmt"
	"go/types"
	"sort"
	"strings"

	"golang.org/x/tools/go/ssa"

	"zv/core"
)

func init() { register("C06", "other", c06) }

// MapRange is one `for k, v := range m` loop over a map.
type MapRange struct {
	Fn    *ssa.Function
	Range *ssa.Range
	Next  *ssa.Next
	Loop  *core.Loop
}

func mapRanges(fn *ssa.Function) []MapRange {
	var out []MapRange
	loops := core.Loops(fn)
	for _, b := range fn.Blocks {
		for _, in := range b.Instrs {
			rg, ok := in.(*ssa.Range)
			if !ok {
				continue
			}
			if _, isMap := rg.X.Type().Underlying().(*types.Map); !isMap {
				continue
			}
			for _, ref := range *rg.Referrers() {
				nx, ok := ref.(*ssa.Next)
				if !ok {
					continue
				}
				var lp *core.Loop
				for _, l := range loops {
					if l.Header == nx.Block() {
						lp = l
					}
				}
				if lp != nil {
					out = append(out, MapRange{fn, rg, nx, lp})
				}
			}
		}
	}
	return out
}

// dependsOn reports whether v's backward slice (within the function, through calls'
// arguments) contains one of the given values.
func dependsOn(v ssa.Value, srcs map[ssa.Value]bool, depth int) bool {
	seen := map[ssa.Value]bool{}
	var walk func(v ssa.Value, d int) bool
	walk = func(v ssa.Value, d int) bool {
		if v == nil || seen[v] || d > depth {
			return false
		}
		seen[v] = true
		if srcs[v] {
			return true
		}
		if in, ok := v.(ssa.Instruction); ok {
			for _, op := range in.Operands(nil) {
				if op != nil && *op != nil && walk(*op, d+1) {
					return true
				}
			}
		}
		if ld, ok := v.(*ssa.UnOp); ok {
			if al, ok := ld.X.(*ssa.Alloc); ok {
				for _, s := range core.StoresTo(al) {
					if walk(s, d+1) {
						return true
					}
				}
			}
		}
		if al, ok := v.(*ssa.Alloc); ok {
			// an array/struct built element-wise (varargs of fmt.Errorf, literals)
			for _, ref := range *al.Referrers() {
				var addr ssa.Value
				switch a := ref.(type) {
				case *ssa.IndexAddr:
					addr = a
				case *ssa.FieldAddr:
					addr = a
				}
				if addr == nil {
					continue
				}
				for _, r2 := range *addr.Referrers() {
					if st, ok := r2.(*ssa.Store); ok && st.Addr == addr && walk(st.Val, d+1) {
						return true
					}
				}
			}
		}
		return false
	}
	return walk(v, 0)
}

// orderEffect describes why a map-range loop's observable effect depends on iteration order.
type orderEffect struct {
	Kind   string // "early-return", "event", "transfer", "append-unsorted", "string-build"
	Instr  ssa.Instruction
	Detail string
}

func isSortCall(c *ssa.CallCommon) bool {
	n := core.CalleeName(c)
	return strings.HasPrefix(n, "sort.") || strings.HasPrefix(n, "slices.Sort") || strings.HasPrefix(n, "golang.org/x/exp/slices.Sort") ||
		n == "github.com/tinylib/msgp/msgp.Sort"
}

// loopOrderEffects classifies the body of a map-range loop.
func loopOrderEffects(mr MapRange) []orderEffect {
	var out []orderEffect
	fn := mr.Fn
	// values that vary with the iteration: the Next tuple and everything defined in the body
	iter := map[ssa.Value]bool{mr.Next: true}
	for _, ref := range *mr.Next.Referrers() {
		if e, ok := ref.(*ssa.Extract); ok && e.Index > 0 {
			iter[e] = true
		}
	}
	bodyVals := map[ssa.Value]bool{}
	for b := range mr.Loop.Body {
		for _, in := range b.Instrs {
			if v, ok := in.(ssa.Value); ok {
				bodyVals[v] = true
			}
		}
	}
	for b := range mr.Loop.Body {
		for _, in := range b.Instrs {
			switch x := in.(type) {
			case ssa.CallInstruction:
				c := x.Common()
				m := core.MethodName(c)
				switch {
				case (m == "EmitEvent" || m == "EmitEventWithVersion") && (isSCtxCall(c, m)):
					out = append(out, orderEffect{"event", in, "event emitted inside a map iteration: event order follows map order"})
				case m == "AddTransfer" && isSCtxCall(c, m):
					out = append(out, orderEffect{"transfer", in, "transfer queued inside a map iteration"})
				case m == "append":
					// appended slice must be sorted before use
					if call, ok := in.(*ssa.Call); ok && !appendIsSortedLater(fn, call, mr) {
						// only when the appended element depends on the iteration
						if len(call.Call.Args) == 2 && dependsOn(call.Call.Args[1], iter, 6) {
							out = append(out, orderEffect{"append-unsorted", in, "slice built in map order and not sorted afterwards"})
						}
					}
				default:
					// a callee that (transitively, statically) emits events
					if cal := core.StaticCallee(c); cal != nil && emitsEvents(cal, 0) {
						out = append(out, orderEffect{"event", in, "callee " + cal.Name() + " emits events inside a map iteration"})
					}
				}
			}
		}
	}
	// last writer wins: inside the body a map entry is written under a key *derived* from
	// the iteration (not the range key itself) with an iteration-dependent value: if two
	// entries derive the same key, the surviving value depends on the map order
	var rangeKey ssa.Value
	for v := range iter {
		if e, ok := v.(*ssa.Extract); ok && e.Index == 1 {
			rangeKey = e
		}
	}
	for b := range mr.Loop.Body {
		for _, in := range b.Instrs {
			mu, ok := in.(*ssa.MapUpdate)
			if !ok {
				continue
			}
			k := mu.Key
			for {
				switch x := k.(type) {
				case *ssa.Convert:
					k = x.X
					continue
				case *ssa.ChangeType:
					k = x.X
					continue
				case *ssa.MakeInterface:
					k = x.X
					continue
				}
				break
			}
			if k == rangeKey || !dependsOn(k, iter, 6) {
				continue
			}
			if _, isC := mu.Value.(*ssa.Const); isC {
				continue // set-like: every colliding writer stores the same constant
			}
			if !dependsOn(mu.Value, iter, 6) {
				continue
			}
			out = append(out, orderEffect{"derived-key-overwrite", in, "map entry written under a key derived from the iteration (collisions make the surviving value depend on map order)"})
		}
	}
	// early exits: a return reachable from inside the loop body without passing the header
	// again whose results depend on iteration values
	for _, ret := range core.Returns(fn) {
		if mr.Loop.Body[ret.Block()] || exitsLoopDirectly(mr, ret.Block()) {
			dep := false
			for _, res := range ret.Results {
				rv := res
				if ld, ok := rv.(*ssa.UnOp); ok {
					if al, ok := ld.X.(*ssa.Alloc); ok {
						if sv := core.LastStoreBefore(al, ld); sv != nil {
							rv = sv
						}
					}
				}
				if core.IsNilConst(rv) {
					continue
				}
				if _, isC := rv.(*ssa.Const); isC {
					continue
				}
				if dependsOn(rv, iter, 8) || (bodyVals[rv] && !isConstLike(rv)) {
					dep = true
				}
			}
			if dep {
				out = append(out, orderEffect{"early-return", ret, "returns a value that depends on which map entry was visited first"})
			}
		}
	}
	sort.Slice(out, func(i, j int) bool { return out[i].Instr.Pos() < out[j].Instr.Pos() })
	return out
}

func isConstLike(v ssa.Value) bool {
	switch x := v.(type) {
	case *ssa.Const:
		return true
	case *ssa.MakeInterface:
		return isConstLike(x.X)
	case *ssa.UnOp:
		if g, ok := x.X.(*ssa.Global); ok {
			return core.IsSentinelErr(g)
		}
	}
	return false
}

// exitsLoopDirectly: block b is outside the loop, has a predecessor inside it and ends
// in a return (`if cond { return … }` compiled outside the natural loop body).
func exitsLoopDirectly(mr MapRange, b *ssa.BasicBlock) bool {
	if mr.Loop.Body[b] {
		return true
	}
	// walk back through single-predecessor chains
	cur := b
	for i := 0; i < 4; i++ {
		if len(cur.Preds) != 1 {
			return false
		}
		pr := cur.Preds[0]
		if mr.Loop.Body[pr] {
			// must not be the loop's normal exit (the header's done edge)
			return pr != mr.Loop.Header
		}
		cur = pr
	}
	return false
}

func appendIsSortedLater(fn *ssa.Function, app *ssa.Call, mr MapRange) bool {
	// find the variable (Alloc or phi chain) receiving the append result, then a sort call on it
	targets := map[ssa.Value]bool{app: true}
	for _, ref := range *app.Referrers() {
		switch x := ref.(type) {
		case *ssa.Store:
			targets[x.Addr] = true
		case *ssa.Phi:
			targets[x] = true
			for _, r2 := range *x.Referrers() {
				if p2, ok := r2.(*ssa.Phi); ok {
					targets[p2] = true
				}
			}
		}
	}
	for _, cs := range core.CallsIn(fn, false, isSortCall) {
		for _, a := range cs.Common().Args {
			v := a
			if mi, ok := v.(*ssa.MakeInterface); ok {
				v = mi.X
			}
			if targets[v] {
				return true
			}
			if ld, ok := v.(*ssa.UnOp); ok && targets[ld.X] {
				return true
			}
			if ph, ok := v.(*ssa.Phi); ok {
				for _, e := range ph.Edges {
					if targets[e] {
						return true
					}
				}
			}
			// sort called on a phi that merges the appended values
			for t := range targets {
				if ph, ok := t.(*ssa.Phi); ok && ph == v {
					return true
				}
			}
		}
	}
	return false
}

var emitsCache = map[*ssa.Function]bool{}

func emitsEvents(fn *ssa.Function, depth int) bool {
	if v, ok := emitsCache[fn]; ok {
		return v
	}
	if fn.Blocks == nil || depth > 3 {
		return false
	}
	emitsCache[fn] = false
	res := false
	for _, cs := range core.CallsIn(fn, true, nil) {
		c := cs.Common()
		m := core.MethodName(c)
		if (m == "EmitEvent" || m == "EmitEventWithVersion") && isSCtxCall(c, m) {
			res = true
			break
		}
		if cal := core.StaticCallee(c); cal != nil && cal.Pkg != nil && core.IsModule(cal.Pkg.Pkg.Path()) && emitsEvents(cal, depth+1) {
			res = true
			break
		}
	}
	emitsCache[fn] = res
	return res
}

// resultReachesOutput: the function's results can reach a contract's output or error
// (call chain up to a handler in which each caller returns the callee's result).
func resultReachesOutput(p *core.Prog, fn *ssa.Function, handlers map[*ssa.Function]bool, depth int, seen map[*ssa.Function]bool) bool {
	fn = core.EnclosingNamed(fn)
	if handlers[fn] {
		return true
	}
	if depth > 6 || seen[fn] {
		return false
	}
	seen[fn] = true
	ix := BuildCallIndex(p)
	for _, cs := range ix.CallersOf(fn) {
		call, ok := cs.Instr.(*ssa.Call)
		if !ok {
			continue
		}
		caller := cs.Fn
		// does the call's result flow to a return of the caller?
		flows := false
		for _, ret := range core.Returns(caller) {
			for _, res := range ret.Results {
				if dependsOn(res, map[ssa.Value]bool{call: true}, 8) {
					flows = true
				}
			}
		}
		// closures (e.g. WithActivation callbacks) returning it count as the enclosing function
		if flows && resultReachesOutput(p, caller, handlers, depth+1, seen) {
			return true
		}
	}
	return false
}

// C06 Block execution is deterministic.
func c06(r *core.Report, p *core.Prog, thorough bool) {
	r.Explain = "Decided over the consensus call closure (contract handlers, updateState, ComputeState): no map iteration whose order can reach a contract output/error, an emitted event or a queued transfer; no wall-clock value that influences control flow or stored data; no package-level (unseeded) math/rand; no store to package-level state. The failed-call cache leak that makes warm and cold nodes diverge is covered by the rollback obligations shared with C02/C07. Not decided: non-determinism inside dependencies, float differences across CPU architectures, goroutine scheduling outside the consensus set."
	r.Rule("C06.map-order", "a range over a map in consensus code must not (a) emit events or queue transfers in iteration order, (b) return a value that depends on which entry came first when that result can reach a contract output/error, (c) build a slice in iteration order that is not sorted before use")
	r.Rule("C06.clock", "time.Now() in consensus code may only feed durations for metrics/logging (time.Since / Sub → metrics, zap)")
	r.Rule("C06.rand", "no package-level math/rand functions (process-global, unseeded source) in consensus code")
	r.Rule("C06.cache", "a failed contract call's cache is never committed (warm vs cold cache divergence) — rollback obligations of C02")

	cons := consensusSet(p, thorough)
	r.Info["consensus_functions"] = len(cons)
	h := BuildHandlers(p)
	handlers := map[*ssa.Function]bool{}
	for _, k := range h.Keys() {
		for _, f := range h[k] {
			handlers[f] = true
		}
	}
	if f := p.Func(fnUpdateState); f != nil {
		handlers[f] = true
	}
	nRanges := 0
	for _, fn := range cons {
		for _, mr := range mapRanges(fn) {
			nRanges++
			effs := loopOrderEffects(mr)
			key := "map-range:" + core.EnclosingNamed(fn).String() + ":" + describe(mr.Range.X)
			if len(effs) == 0 {
				r.Pass("C06.map-order", key, posOf(p, mr.Range), "order-insensitive body")
				continue
			}
			for _, e := range effs {
				ekey := key + ":" + e.Kind
				switch e.Kind {
				case "early-return":
					if resultReachesOutput(p, fn, handlers, 0, map[*ssa.Function]bool{}) {
						r.Fail("C06.map-order", ekey, posOf(p, e.Instr), e.Detail+"; the result propagates to a contract's output/error, which is hashed into the block")
					} else {
						r.Pass("C06.map-order", ekey+":contained", posOf(p, e.Instr), "order-dependent result does not reach a contract output (logged or discarded by every caller)")
					}
				case "append-unsorted":
					if why, ok := appendExempt(p, mr, e); ok {
						r.Pass("C06.map-order", ekey+":exempt", posOf(p, e.Instr), why)
					} else {
						r.Fail("C06.map-order", ekey, posOf(p, e.Instr), e.Detail)
					}
				default:
					r.Fail("C06.map-order", ekey, posOf(p, e.Instr), e.Detail)
				}
			}
		}
	}
	r.Info["map_ranges_in_consensus_set"] = nRanges
	minRanges := 15 // static closure of the handlers (quick)
	if thorough {
		minRanges = 40 // VTA closure also reaches codecs and table-dispatched phase functions
	}
	r.Floor("C06.map-order", "map ranges analysed", nRanges, minRanges)

	// ---- wall clock
	nNow := 0
	for _, fn := range cons {
		for _, c := range findCalls(fn, "time.Now") {
			nNow++
			key := "time.Now:" + core.EnclosingNamed(fn).String()
			bad := clockEscapes(c, 0)
			if bad == "" {
				r.Pass("C06.clock", key, p.Pos(c.Pos()), "only measures a duration for metrics/logging")
			} else {
				r.Fail("C06.clock", key, p.Pos(c.Pos()), "wall-clock value influences execution: "+bad)
			}
		}
	}
	r.Info["time.Now_sites"] = nNow
	// ---- rand
	nRand := 0
	for _, fn := range cons {
		for _, cs := range core.CallsIn(fn, false, func(c *ssa.CallCommon) bool {
			n := core.CalleeName(c)
			return strings.HasPrefix(n, "math/rand.") && n != "math/rand.New" && n != "math/rand.NewSource"
		}) {
			nRand++
			r.Fail("C06.rand", "global-rand:"+core.EnclosingNamed(fn).String()+":"+core.MethodName(cs.Common()), p.Pos(cs.Pos()), "process-global random source in consensus code")
		}
	}
	if nRand == 0 {
		r.Pass("C06.rand", "none", "", "no package-level math/rand call in the consensus set")
	}
	// seeded sources: the seed must not be a wall-clock value
	for _, fn := range cons {
		for _, c := range findCalls(fn, "math/rand.NewSource") {
			seed := c.Call.Args[0]
			bad := false
			for _, rt := range core.Slice(seed) {
				if strings.Contains(rt.Desc, "time.") {
					bad = true
				}
			}
			r.Check(!bad, "C06.rand", "seed:"+core.EnclosingNamed(fn).String(), p.Pos(c.Pos()), "random source seeded from "+strings.Join(core.RootDescs(core.Slice(seed)), ","))
		}
	}
	// ---- cache (shared)
	sub := core.NewReport(p, "C02", "quick")
	c02(sub, p, false)
	k := 0
	for _, o := range sub.Obs {
		if o.Rule == "C02.rebind" || o.Rule == "C02.cache-commit" {
			k++
			r.Check(o.OK, "C06.cache", strings.TrimPrefix(o.Key, o.Rule+" "), o.Pos, o.Detail)
		}
	}
	r.Floor("C06.cache", "rollback obligations", k, 8)
}

// clockEscapes follows a time.Now() value: allowed uses are time.Since/Sub/UnixNano
// feeding metrics, zap fields or other duration arithmetic that ends there.
func clockEscapes(v ssa.Value, depth int) string {
	if depth > 6 {
		return "use chain too deep to classify"
	}
	refs := v.Referrers()
	if refs == nil {
		return ""
	}
	for _, ref := range *refs {
		switch x := ref.(type) {
		case *ssa.DebugRef:
		case *ssa.Store:
			if al, ok := x.Addr.(*ssa.Alloc); ok {
				for _, r2 := range *al.Referrers() {
					if ld, ok := r2.(*ssa.UnOp); ok {
						if s := clockEscapes(ld, depth+1); s != "" {
							return s
						}
					}
				}
				continue
			}
			return "stored to " + describe(x.Addr)
		case *ssa.Call:
			n := core.CalleeName(x.Common())
			switch {
			case n == "time.Since" || n == "(time.Time).Sub" || n == "(time.Time).UnixNano" || n == "(time.Time).Unix" || n == "(time.Duration).Microseconds" || n == "(time.Duration).Milliseconds" || n == "(time.Duration).Seconds" || n == "(time.Duration).Nanoseconds":
				if s := clockEscapes(x, depth+1); s != "" {
					return s
				}
			case strings.HasPrefix(n, "go.uber.org/zap.") || strings.HasPrefix(n, "(*go.uber.org/zap."):
			case strings.Contains(n, "go-metrics"):
			case n == "0chain.net/smartcontract/multisigsc.printTimeTaken":
				// logs only (checked: body feeds zap)
			default:
				return "passed to " + n
			}
		case *ssa.Defer:
			n := core.CalleeName(x.Common())
			if strings.HasSuffix(n, "printTimeTaken") || strings.Contains(n, "go-metrics") {
				continue
			}
			return "deferred call " + n
		case *ssa.BinOp:
			switch x.Op.String() {
			case "-", "/", "+", "*":
				if s := clockEscapes(x, depth+1); s != "" {
					return s
				}
			default:
				// a threshold test whose only effect is a log line (`if d > p95 { log }`)
				okLog := true
				for _, r2 := range *x.Referrers() {
					if ifi, ok := r2.(*ssa.If); ok {
						if !branchOnlyLogs(ifi) {
							okLog = false
						}
					} else if _, ok := r2.(*ssa.DebugRef); !ok {
						okLog = false
					}
				}
				if !okLog {
					return "compared: " + x.String()
				}
			}
		case *ssa.Convert, *ssa.ChangeType, *ssa.MakeInterface:
			if s := clockEscapes(x.(ssa.Value), depth+1); s != "" {
				return s
			}
		case *ssa.If:
			return "controls a branch"
		case *ssa.Return:
			return "returned"
		case *ssa.MakeClosure:
			// captured by a closure (e.g. deferred timer): follow the free variable uses
			if fn, ok := x.Fn.(*ssa.Function); ok {
				for i, b := range x.Bindings {
					if b == v && i < len(fn.FreeVars) {
						if s := clockEscapes(fn.FreeVars[i], depth+1); s != "" {
							return s
						}
					}
				}
			}
		case *ssa.UnOp:
			if s := clockEscapes(x, depth+1); s != "" {
				return s
			}
		case *ssa.Extract:
			if s := clockEscapes(x, depth+1); s != "" {
				return s
			}
		default:
			return fmt.Sprintf("used by %T", ref)
		}
	}
	return ""
}

// branchOnlyLogs: the blocks that run only when the condition is true (or only when it
// is false) contain nothing but logging calls and the computations feeding them.
func branchOnlyLogs(ifi *ssa.If) bool {
	b := ifi.Block()
	for i := 0; i < 2; i++ {
		s := b.Succs[i]
		if len(s.Preds) != 1 {
			continue // join block: executed either way
		}
		// blocks dominated by s
		for _, x := range b.Parent().Blocks {
			if !s.Dominates(x) {
				continue
			}
			for _, in := range x.Instrs {
				switch y := in.(type) {
				case *ssa.Call:
					n := core.CalleeName(y.Common())
					if strings.HasPrefix(n, "go.uber.org/zap.") || strings.HasPrefix(n, "(*go.uber.org/zap.") || strings.Contains(n, "go-metrics") ||
						n == "time.Since" || strings.HasPrefix(n, "(time.") || strings.HasPrefix(n, "math.") || strings.HasPrefix(n, "strconv.") || n == "builtin.len" || strings.HasPrefix(n, "github.com/0chain/common/core/util.ToHex") || strings.HasPrefix(n, "fmt.Sprint") {
						continue
					}
					return false
				case *ssa.Store:
					if _, ok := y.Addr.(*ssa.IndexAddr); ok {
						continue // varargs array of the log call
					}
					if _, ok := y.Addr.(*ssa.Alloc); ok {
						continue
					}
					return false
				case *ssa.Return, *ssa.Panic, *ssa.Go, *ssa.Defer, *ssa.MapUpdate, *ssa.Send:
					return false
				}
			}
		}
	}
	return true
}

// appendExempt decides whether a slice built in map order can make its order visible:
// it can when it (or a string formatted from it) reaches an event, an encoder, or a
// result that propagates to a contract's output. Commutative uses (counting, map
// updates, trie deletes, logging) are order-insensitive.
func appendExempt(p *core.Prog, mr MapRange, e orderEffect) (string, bool) {
	call, ok := e.Instr.(*ssa.Call)
	if !ok {
		return "", false
	}
	h := BuildHandlers(p)
	handlers := map[*ssa.Function]bool{}
	for _, k := range h.Keys() {
		for _, f := range h[k] {
			handlers[f] = true
		}
	}
	if why := orderVisible(p, call, mr.Fn, handlers, 0, map[ssa.Value]bool{}); why != "" {
		return why, false
	}
	return "the slice's order never reaches an event, an encoder or a contract output (only counted, used for commutative updates, or logged)", true
}

// orderVisible follows an order-dependent value to the places where its order shows.
func orderVisible(p *core.Prog, v ssa.Value, fn *ssa.Function, handlers map[*ssa.Function]bool, depth int, seen map[ssa.Value]bool) string {
	if v == nil || seen[v] || depth > 5 {
		return ""
	}
	seen[v] = true
	refs := v.Referrers()
	if refs == nil {
		return ""
	}
	for _, ref := range *refs {
		switch x := ref.(type) {
		case *ssa.Store:
			// variable holding the slice: follow its loads
			if al, ok := x.Addr.(*ssa.Alloc); ok {
				for _, r2 := range *al.Referrers() {
					if ld, ok := r2.(*ssa.UnOp); ok {
						if s := orderVisible(p, ld, fn, handlers, depth, seen); s != "" {
							return s
						}
					}
				}
			}
		case *ssa.Phi, *ssa.MakeInterface, *ssa.ChangeType, *ssa.Convert, *ssa.Slice:
			if s := orderVisible(p, x.(ssa.Value), fn, handlers, depth, seen); s != "" {
				return s
			}
		case *ssa.Return:
			// order-dependent result: visible if some caller makes it visible
			ix := BuildCallIndex(p)
			for _, cs := range ix.CallersOf(core.EnclosingNamed(fn)) {
				if c, ok := cs.Instr.(*ssa.Call); ok {
					var cv ssa.Value = c
					if c.Call.Signature().Results().Len() > 1 {
						for _, r2 := range *c.Referrers() {
							if ex, ok := r2.(*ssa.Extract); ok {
								if s := orderVisible(p, ex, cs.Fn, handlers, depth+1, seen); s != "" {
									return s
								}
							}
						}
						continue
					}
					if s := orderVisible(p, cv, cs.Fn, handlers, depth+1, seen); s != "" {
						return s
					}
				}
			}
		case ssa.CallInstruction:
			c := x.Common()
			n := core.CalleeName(c)
			m := core.MethodName(c)
			switch {
			case (m == "EmitEvent" || m == "EmitEventWithVersion") && isSCtxCall(c, m):
				return "reaches an emitted event at " + p.Pos(x.Pos())
			case n == "encoding/json.Marshal" || m == "Encode" || m == "MarshalMsg" || strings.HasPrefix(n, "github.com/tinylib/msgp/msgp.Append"):
				return "reaches an encoder (" + n + ") at " + p.Pos(x.Pos())
			case strings.HasPrefix(n, "fmt.Sprint") || n == "fmt.Errorf" || n == "strings.Join" || strings.HasSuffix(n, ".NewErrorf") || strings.HasSuffix(n, ".NewError"):
				// formatted text: visible when this function's result reaches a contract output
				if val, ok := x.(ssa.Value); ok {
					for _, r2 := range *val.Referrers() {
						switch r2.(type) {
						case *ssa.Return, *ssa.Store, *ssa.Phi, *ssa.MakeInterface:
							if resultReachesOutput(p, x.Parent(), handlers, 0, map[*ssa.Function]bool{}) {
								return "formatted into a result that reaches a contract output at " + p.Pos(x.Pos())
							}
						}
					}
				}
			case m == "append":
				if val, ok := x.(ssa.Value); ok {
					if s := orderVisible(p, val, fn, handlers, depth, seen); s != "" {
						return s
					}
				}
			}
		}
	}
	return ""
}
