package props

import (
	"fmt"
	"go/token"
	"strings"

	"golang.org/x/tools/go/ssa"

	"zv/core"
)

func init() { register("C16", "other", c16) }

const pkgVest = "0chain.net/smartcontract/vestingsc"

// C16 Vesting pays each destination at most its amount, on schedule.
func c16(r *core.Report, p *core.Prog, thorough bool) {
	r.Explain = "Decided: Vested is only ever increased (checked) by the amount just computed from the tokens left (Amount − Vested, checked) and is reset only at pool creation; the elapsed period and the full period of the ratio are measured from the same destination field; the time is clamped into [StartTime, ExpireAt] before unlocking; the value transferred to a destination is the value just added to Vested, paid from the contract; owner-only operations are dominated by the owner comparison and a destination can only vest to itself; the pool is funded with at least the sum of the amounts; Coin subtraction is checked. Not decided: the linear schedule and float rounding (numeric)."
	r.Rule("C16.vested", "destination.Vested: written only by move (AddCoin(d.Vested, moved), moved > 0) and by the creation-time reset; unlock computes from MinusCoin(Amount, Vested) and hands the same amount to move")
	r.Rule("C16.ratio", "full(end) and period(now) subtract the same field of the destination (one time base for numerator and denominator)")
	r.Rule("C16.clamp", "trigger and vest clamp now into [StartTime, ExpireAt] before calling unlock")
	r.Rule("C16.pay", "the value transferred to a destination is the value unlock returned; moveToDest drains the pool by that value and queues the transfer, errors abort; zero values are skipped")
	r.Rule("C16.owner", "stop, delete, trigger and drain are dominated by the pool-owner comparison; unlock drains only for the owner and otherwise vests for the caller itself")
	r.Rule("C16.funding", "add: t.Value >= sum of destination amounts (checked sum) dominates the fill; pool and client list saved")
	r.Rule("C16.arith", "no unguarded raw Coin subtraction in the vesting contract")

	get := func(n string) *ssa.Function { return p.Func(n) }
	dT := "(*" + pkgVest + ".destination)."
	vT := "(*" + pkgVest + ".vestingPool)."
	full, period, move, unlock := get(dT+"full"), get(dT+"period"), get(dT+"move"), get(dT+"unlock")
	trig, vest, drain, m2d, excess, want := get(vT+"trigger"), get(vT+"vest"), get(vT+"drain"), get(vT+"moveToDest"), get(vT+"excess"), get(vT+"want")
	if full == nil || period == nil || move == nil || unlock == nil || trig == nil || vest == nil || drain == nil || m2d == nil || excess == nil || want == nil {
		r.Unresolved("C16.vested", "vestingsc destination/vestingPool methods")
		return
	}
	vestedF := p.Field(pkgVest, "destination", "Vested")
	// ---- vested writers
	var vfns []*ssa.Function
	for _, fn := range p.FuncsIn(pkgVest) {
		if !isTooling(p, fn) {
			vfns = append(vfns, fn)
		}
	}
	nW := 0
	for _, w := range core.FieldWrites(vfns, vestedF) {
		nW++
		fn := core.EnclosingNamed(w.Fn).String()
		switch {
		case fn == move.String():
			cr := CreditsOf(move, vestedF)
			ok := len(cr) == 1 && cr[0].Call != nil && describe(cr[0].Added) == "moved" && core.ErrLeadsToFailure(cr[0].Call)
			r.Check(ok, "C16.vested", "writer:move", posOf(p, w.Instr), "Vested = AddCoin(Vested, moved), overflow returned")
			r.Check(HasCmp(w.Instr.Block(), "moved", token.GTR, "0"), "C16.vested", "writer:move:only-when-positive", posOf(p, w.Instr), "credited only when tokens really move")
		case strings.HasSuffix(fn, ".destinations).start"):
			k, isK := core.ConstInt(w.Val)
			r.Check(isK && k == 0, "C16.vested", "writer:start", posOf(p, w.Instr), "creation-time reset to zero")
			// start is called only from pool creation
			ix := BuildCallIndex(p)
			for _, cs := range ix.CallersOf(core.EnclosingNamed(w.Fn)) {
				r.Check(strings.Contains(cs.Fn.Name(), "newVestingPoolFromReqeust"), "C16.vested", "start-caller:"+cs.Fn.Name(), p.Pos(cs.Pos()), "Vested may be reset only when the pool is created")
			}
		case isCodecName(fn):
		default:
			r.Fail("C16.vested", "writer:"+fn, posOf(p, w.Instr), "destination.Vested written outside move/start")
		}
	}
	r.Floor("C16.vested", "Vested writers", nW, 2)
	// unlock: left from d.left(); amount = MultFloat64(left, ratio); move(now, amount)
	lc := findCalls(unlock, dT+"left")
	mf := findCalls(unlock, pkgCurr+".MultFloat64")
	mv := findCalls(unlock, move.String())
	if r.Check(len(lc) == 1 && len(mf) == 1 && len(mv) == 1, "C16.vested", "unlock:shape", p.Pos(unlock.Pos()), fmt.Sprintf("left=%d MultFloat64=%d move=%d", len(lc), len(mf), len(mv))) {
		c0, i0 := core.CallOf(mf[0].Call.Args[0])
		r.Check(c0 == lc[0] && i0 == 0 && core.ErrLeadsToFailure(lc[0]), "C16.vested", "unlock:from-left", p.Pos(mf[0].Pos()), "the vested amount is a fraction of the tokens left; underflow aborts")
		amtArg := core.CallArgs(mv[0].Common())[1]
		same := false
		for _, rt := range core.Slice(amtArg) {
			if c, i := core.CallOf(rt.V); c == mf[0] && i == 0 {
				same = true
			}
		}
		r.Check(same, "C16.vested", "unlock:moves-computed-amount", p.Pos(mv[0].Pos()), "move receives the amount just computed")
		retSame := false
		for _, ret := range core.SuccessExits(unlock) {
			for _, rt := range core.Slice(ret.Results[0]) {
				if c, i := core.CallOf(rt.V); c == mf[0] && i == 0 {
					retSame = true
				}
			}
		}
		r.Check(retSame, "C16.vested", "unlock:returns-computed-amount", p.Pos(unlock.Pos()), "unlock returns the amount it recorded")
	}
	lf := get(dT + "left")
	if lf != nil {
		okL := false
		for _, c := range findCalls(lf, pkgCurr+".MinusCoin") {
			if strings.HasSuffix(describe(c.Call.Args[0]), ".Amount") && strings.HasSuffix(describe(c.Call.Args[1]), ".Vested") {
				okL = true
			}
		}
		r.Check(okL, "C16.vested", "left:amount-minus-vested", p.Pos(lf.Pos()), "left = MinusCoin(Amount, Vested)")
	}
	// ---- ratio time base
	base := func(fn *ssa.Function) string {
		for _, b := range fn.Blocks {
			for _, in := range b.Instrs {
				if bo, ok := in.(*ssa.BinOp); ok && bo.Op == token.SUB {
					return describe(bo.Y)
				}
			}
		}
		return "?"
	}
	bf, bp := base(full), base(period)
	r.Check(bf == bp && strings.HasPrefix(bf, "d."), "C16.ratio", "full~period:same-base", p.Pos(full.Pos()), "full subtracts "+bf+", period subtracts "+bp)
	// ratio = period/full in unlock
	okRatio := false
	ratioFns := []*ssa.Function{unlock}
	for _, cs := range core.CallsIn(unlock, false, nil) {
		if h := core.StaticCallee(cs.Common()); h != nil && h.Blocks != nil && h.Pkg == unlock.Pkg && h != full && h != period {
			ratioFns = append(ratioFns, h) // the division may sit in a helper of unlock
		}
	}
	for _, rf := range ratioFns {
		for _, b := range rf.Blocks {
			for _, in := range b.Instrs {
				bo, ok := in.(*ssa.BinOp)
				if !ok || bo.Op != token.QUO {
					continue
				}
				xs, ys := strings.Join(core.DeepRoots(bo.X), ","), strings.Join(core.DeepRoots(bo.Y), ",")
				if strings.Contains(xs, ".period") && strings.Contains(ys, ".full") {
					okRatio = true
				}
			}
		}
	}
	for _, b := range unlock.Blocks[:0] {
		for _, in := range b.Instrs {
			if bo, ok := in.(*ssa.BinOp); ok && bo.Op == token.QUO {
				xs, ys := strings.Join(core.DeepRoots(bo.X), ","), strings.Join(core.DeepRoots(bo.Y), ",")
				if strings.Contains(xs, ".period") && strings.Contains(ys, ".full") {
					okRatio = true
				}
			}
		}
	}
	r.Check(okRatio, "C16.ratio", "unlock:ratio", p.Pos(unlock.Pos()), "ratio = period(now) / full(end)")
	// ---- clamp
	for _, fn := range []*ssa.Function{trig, vest} {
		ucs := findCalls(fn, unlock.String())
		if !r.Check(len(ucs) == 1, "C16.clamp", fn.Name()+":unlock-call", p.Pos(fn.Pos()), fmt.Sprintf("%d unlock calls", len(ucs))) {
			continue
		}
		nowArg := core.CallArgs(ucs[0].Common())[0]
		leaves := map[string]bool{}
		for _, lv := range ValueLeaves(nowArg, 1) { // through phis and a clamp helper's returns
			leaves[describe(lv)] = true
		}
		hasEnd, hasStart := false, false
		for l := range leaves {
			if strings.HasSuffix(l, ".ExpireAt") {
				hasEnd = true
			}
			if strings.HasSuffix(l, ".StartTime") {
				hasStart = true
			}
		}
		r.Check(hasEnd && hasStart && len(leaves) == 3, "C16.clamp", fn.Name()+":now-clamped", p.Pos(ucs[0].Pos()), fmt.Sprintf("now is one of %v", keysOf(leaves)))
		endArg := describe(core.CallArgs(ucs[0].Common())[1])
		r.Check(strings.HasSuffix(endArg, ".ExpireAt"), "C16.clamp", fn.Name()+":end-is-expiry", p.Pos(ucs[0].Pos()), "end = "+endArg)
		// ---- pay
		mcs := findCalls(fn, m2d.String())
		if r.Check(len(mcs) == 1, "C16.pay", fn.Name()+":moveToDest-call", p.Pos(fn.Pos()), fmt.Sprintf("%d calls", len(mcs))) {
			a := core.CallArgs(mcs[0].Common())
			c, i := core.CallOf(a[2])
			r.Check(c == ucs[0] && i == 0, "C16.pay", fn.Name()+":pays-unlocked-value", p.Pos(mcs[0].Pos()), "transfers "+describe(a[2]))
			r.Check(core.ErrLeadsToFailure(mcs[0]) && core.ErrLeadsToFailure(ucs[0]), "C16.pay", fn.Name()+":errors-abort", p.Pos(mcs[0].Pos()), "unlock/transfer errors abort")
			r.Check(HasCmp(mcs[0].Block(), "unlock()#0", token.NEQ, "0"), "C16.pay", fn.Name()+":skip-zero", p.Pos(mcs[0].Pos()), "zero values are not transferred")
		}
	}
	// moveToDest
	dp := methodCalls(m2d, "DrainPool")
	ts := TransferSites([]*ssa.Function{m2d})
	if r.Check(len(dp) == 1 && len(ts) == 1, "C16.pay", "moveToDest:shape", p.Pos(m2d.Pos()), fmt.Sprintf("DrainPool=%d AddTransfer=%d", len(dp), len(ts))) {
		a := core.CallArgs(dp[0].Common())
		r.Check(describe(a[0]) == "vscKey" && describe(a[1]) == "destID" && describe(a[2]) == "value", "C16.pay", "moveToDest:drain-args", p.Pos(dp[0].Pos()), "DrainPool("+describe(a[0])+", "+describe(a[1])+", "+describe(a[2])+")")
		r.Check(core.ErrLeadsToFailure(dp[0]), "C16.pay", "moveToDest:drain-err", p.Pos(dp[0].Pos()), "drain error aborts")
		if c, ok := ts[0].Site.Instr.(*ssa.Call); ok {
			r.Check(core.ErrLeadsToFailure(c) && Before(dp[0], c), "C16.pay", "moveToDest:transfer", p.Pos(c.Pos()), "the drained transfer is queued, error aborts")
		}
	}
	// ---- owner guards
	h := BuildHandlers(p)
	for _, api := range []string{"vestingsc:stop", "vestingsc:delete", "vestingsc:trigger"} {
		hs := h.Get(api)
		if len(hs) != 1 {
			r.Unresolved("C16.owner", api)
			continue
		}
		fn := hs[0]
		n := 0
		for _, cs := range core.CallsIn(fn, false, func(c *ssa.CallCommon) bool {
			m := core.MethodName(c)
			return m == "vest" || m == "trigger" || m == "drain" || m == "delete" || m == "save" || (m == "DeleteTrieNode" && isSCtxCall(c, m))
		}) {
			n++
			r.Check(HasCmp(cs.Instr.Block(), ".ClientID", token.EQL, ".ClientID"), "C16.owner", api+":"+core.MethodName(cs.Common()), p.Pos(cs.Pos()), "effect dominated by vp.ClientID == t.ClientID")
		}
		r.Floor("C16.owner", api+" effects", n, 2)
	}
	// drain
	for _, t := range TransferSites([]*ssa.Function{drain}) {
		r.Check(HasCmp(t.Site.Instr.Block(), ".ClientID", token.EQL, ".ClientID"), "C16.owner", "drain:owner", p.Pos(t.Site.Pos()), "only the owner drains the excess")
	}
	ddp := methodCalls(drain, "DrainPool")
	if r.Check(len(ddp) == 1, "C16.owner", "drain:DrainPool", p.Pos(drain.Pos()), fmt.Sprintf("%d calls", len(ddp))) {
		a := core.CallArgs(ddp[0].Common())
		c, i := core.CallOf(a[2])
		r.Check(describe(a[0]) == "t.ToClientID" && describe(a[1]) == "t.ClientID" && c != nil && i == 0 && core.MethodName(c.Common()) == "excess", "C16.owner", "drain:args", p.Pos(ddp[0].Pos()), "DrainPool("+describe(a[0])+", "+describe(a[1])+", "+describe(a[2])+")")
	}
	// unlock handler
	if hs := h.Get("vestingsc:unlock"); len(hs) == 1 {
		fn := hs[0]
		for _, c := range findCalls(fn, drain.String()) {
			r.Check(HasCmp(c.Block(), ".ClientID", token.EQL, ".ClientID"), "C16.owner", "unlock:drain-for-owner", p.Pos(c.Pos()), "drain only when the caller owns the pool")
		}
		for _, c := range findCalls(fn, vest.String()) {
			a := core.CallArgs(c.Common())
			r.Check(describe(a[1]) == "t.ClientID" && describe(a[0]) == "t.ToClientID" && describe(a[2]) == "t.CreationDate", "C16.owner", "unlock:vests-for-caller", p.Pos(c.Pos()), "vest("+describe(a[0])+", "+describe(a[1])+", "+describe(a[2])+")")
		}
		svs := methodCalls(fn, "save")
		if r.Check(len(svs) == 1, "C16.owner", "unlock:save", p.Pos(fn.Pos()), fmt.Sprintf("%d saves", len(svs))) {
			ok, w := MustPass(p, fn, svs[0])
			r.Check(ok && core.ErrLeadsToFailure(svs[0]), "C16.owner", "unlock:saved", p.Pos(svs[0].Pos()), w)
		}
	} else {
		r.Unresolved("C16.owner", "vestingsc:unlock")
	}
	// ---- funding
	if hs := h.Get("vestingsc:add"); len(hs) == 1 {
		fn := hs[0]
		fc := methodCalls(fn, "fill")
		if r.Check(len(fc) == 1, "C16.funding", "add:fill", p.Pos(fn.Pos()), fmt.Sprintf("%d fill calls", len(fc))) {
			r.Check(HasCmp(fc[0].Block(), ".Value", token.GEQ, "want()#0"), "C16.funding", "add:value-covers-amounts", p.Pos(fc[0].Pos()), "t.Value < sum(amounts) rejects before the fill")
			r.Check(core.ErrLeadsToFailure(fc[0]), "C16.funding", "add:fill-err", p.Pos(fc[0].Pos()), "fill error aborts")
			for _, sv := range methodCalls(fn, "save") {
				ok, w := MustPassFrom(p, fn, fc[0], sv)
				r.Check(ok && core.ErrLeadsToFailure(sv), "C16.funding", "add:saved:"+describe(core.Receiver(sv.Common())), p.Pos(sv.Pos()), w)
			}
		}
		wc := findCalls(want, pkgCurr+".AddCoin")
		r.Check(len(wc) == 1 && strings.HasSuffix(describe(wc[0].Call.Args[1]), ".Amount") && core.ErrLeadsToFailure(wc[0]), "C16.funding", "want:checked-sum", p.Pos(want.Pos()), "want sums the destination amounts with checked addition")
	} else {
		r.Unresolved("C16.funding", "vestingsc:add")
	}
	// ---- arithmetic
	n := 0
	for _, o := range RawCoinArith(vfns) {
		if o.Op.Op != token.SUB {
			continue
		}
		n++
		r.Check(subGuarded(o.Op), "C16.arith", "raw-sub:"+core.EnclosingNamed(o.Fn).String(), posOf(p, o.Op), "raw Coin subtraction "+describe(o.Op.X)+" - "+describe(o.Op.Y)+" without a dominating guard wraps when the pool holds less than its destinations still need")
	}
	if n == 0 {
		r.Pass("C16.arith", "none", "", "no raw Coin subtraction in the vesting contract")
	}
	c16Delete(r, p)
}

// c16Delete: "the owner can always delete the pool". drain (and trigger) fail when
// there is nothing to move, so delete may call them only under a balance test made on
// the *current* balance: no call that changes the pool balance may run between the
// test's load of the balance and the guarded call.
func c16Delete(r *core.Report, p *core.Prog) {
	r.Rule("C16.delete-live", "vestingsc:delete calls the steps that fail on an empty pool (trigger, drain) only under a pool-balance test whose balance load is not followed by a balance-changing call before the guarded call")
	hs := BuildHandlers(p).Get("vestingsc:delete")
	if len(hs) != 1 {
		r.Unresolved("C16.delete-live", "vestingsc:delete")
		return
	}
	h := hs[0]
	mutatesBalance := map[*ssa.Function]bool{}
	var mut func(f *ssa.Function, depth int) bool
	mut = func(f *ssa.Function, depth int) bool {
		if f == nil || f.Blocks == nil || depth > 5 {
			return false
		}
		if v, ok := mutatesBalance[f]; ok {
			return v
		}
		mutatesBalance[f] = false
		res := false
		for _, b := range f.Blocks {
			for _, in := range b.Instrs {
				if st, ok := in.(*ssa.Store); ok {
					if fa, ok := st.Addr.(*ssa.FieldAddr); ok && core.FieldOf(fa) != nil && core.FieldOf(fa).Name() == "Balance" {
						res = true
					}
				}
				if ci, ok := in.(ssa.CallInstruction); ok {
					if cal := core.StaticCallee(ci.Common()); cal != nil && cal.Pkg != nil && core.IsModule(cal.Pkg.Pkg.Path()) && mut(cal, depth+1) {
						res = true
					}
				}
			}
		}
		mutatesBalance[f] = res
		return res
	}
	n := 0
	for _, name := range []string{"trigger", "drain"} {
		for _, c := range methodCalls(h, name) {
			n++
			pool := core.Receiver(c.Common())
			// the guard: a dominating fact  load(pool…Balance) > 0
			var guardLoad ssa.Instruction
			for _, f := range CmpFacts(c.Block()) {
				k, isK := core.ConstInt(f.Y)
				if !isK || k != 0 || !(f.Op == token.GTR || f.Op == token.NEQ) {
					continue
				}
				rt, pth := core.BaseObject(f.X)
				if !strings.HasSuffix(pth, ".Balance") || canonObj(rt) != canonObj(pool) {
					continue
				}
				if ld, ok := f.X.(ssa.Instruction); ok {
					guardLoad = ld
				}
			}
			ok := guardLoad != nil
			why := "no dominating pool-balance test"
			if ok {
				for _, b := range h.Blocks {
					for _, in := range b.Instrs {
						c2, isC := in.(*ssa.Call)
						if !isC || c2 == c {
							continue
						}
						cal := core.StaticCallee(c2.Common())
						if cal == nil || !mut(cal, 0) {
							continue
						}
						if core.Reaches(guardLoad, c2) && core.Reaches(c2, c) {
							ok = false
							why = "the balance tested was read before " + cal.Name() + " (" + p.Pos(c2.Pos()) + "), which can empty the pool: " + name + " then fails and the pool cannot be deleted"
						}
					}
				}
			}
			r.Check(ok, "C16.delete-live", fmt.Sprintf("delete:%s-under-current-balance#%d", name, n), p.Pos(c.Pos()), "a step that fails on an empty pool runs only when the pool is non-empty now; "+why)
		}
	}
	r.Floor("C16.delete-live", "trigger/drain calls in vestingsc:delete", n, 2)
}

func keysOf(m map[string]bool) []string {
	var out []string
	for k := range m {
		out = append(out, k)
	}
	return out
}
