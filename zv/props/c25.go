package props

import (
	"fmt"
	"go/token"
	"go/types"
	"sort"
	"strings"

	"golang.org/x/tools/go/ssa"

	"zv/core"
)

func init() { register("C25", "other", c25) }

const pkgPart = "0chain.net/smartcontract/partitions"

// C25 Partitions behave as a set — structural necessary conditions.
//
// The set semantics (which items end up where after a sequence of operations) is
// value-level and is NOT decided.  Decided are the disciplines without which the stored
// representation and the in-memory one cannot agree with any set: a changed non-tail
// partition is marked dirty and reachable by Save; the location index is written for
// every item that enters a non-tail partition and removed for every item that leaves
// one; lookups consult the tail first; the tail is packed exactly when full and
// compacted when emptied; Save writes every dirty partition and the header.
func c25(r *core.Report, p *core.Prog, thorough bool) {
	r.Explain = "The set semantics of a history of operations is value-level and is not decided. Decided — each a necessary condition for membership, lookup and iteration to agree with a set after saves and reloads: (dirty) a function that writes the Items of a partition that may be a stored (non-tail) partition sets its Changed flag on every success path after the write; (cache) getPartition registers a partition it loads in p.Partitions before handing it out, so Save can see the flag; (save) Save visits every key of p.Partitions, saves every partition whose changed() holds, errors aborting, and then writes the header under p.Name; (location) pack records the location of every item of the tail it seals; an item moved from the tail into another partition gets its location recorded; an item removed from a stored partition, and every item of a partition that becomes the tail again, gets its location removed; (lookup-order) getItemPartIndex is consulted only after the tail was searched and missed; an item is added to the tail only after both the tail and the index missed; (tail) the tail is packed exactly when its length equals PartitionSize, and a removal that may empty the tail ends in loadLastFromPrev; (size) Size is Last.Loc*PartitionSize + Last.length()."
	r.Rule("C25.dirty", "a write to the Items of a partition not reached through p.Last is followed by Changed = true on every success path")
	r.Rule("C25.cache", "getPartition stores a partition it loaded into p.Partitions[i] before returning it")
	r.Rule("C25.save", "Save: for every key of p.Partitions a partition with changed() is saved (error aborts), then InsertTrieNode(p.Name, p) on every success path")
	r.Rule("C25.location", "pack: saveItemLoc for every item of the sealed tail with the tail's Loc; removeItem: saveItemLoc(moved.ID, index) after the move; Remove/RemoveX: removeItemLoc(id) after removeItem; loadLastFromPrev: removeItemLoc for every item of the new tail")
	r.Rule("C25.sealed-persisted", "pack: the full tail that is moved into p.Partitions has been written under its own key (partition.save, error aborting) or is marked Changed before it stops being the tail — Save() writes only partitions whose Changed flag is set, and the flag is not serialized (a tail that was only decoded, or pulled back by loadLastFromPrev, is clean)")
	r.Rule("C25.lookup-order", "getItemPartIndex is called only where the tail's find missed (or, in Add/AddX, before the tail is searched by add); Last.add only after the tail's find missed")
	r.Rule("C25.tail", "pack is called exactly under Last.length() == PartitionSize and Last.add is not reached from the full edge without it; removeFromLast/removeItem exit successfully only with a non-empty tail or after loadLastFromPrev")
	r.Rule("C25.locations-cache", "the in-memory locations map gets an entry only together with the stored location (saveItemLoc, same key) or for the items of a partition taken from p.Partitions (never the tail: tail items have no location and removeFromLast clears none)")
	r.Rule("C25.size", "Size returns Last.Loc*PartitionSize + Last.length() (0 for an empty tail)")

	itemsF := p.Field(pkgPart, "partition", "Items")
	changedF := p.Field(pkgPart, "partition", "Changed")
	lastF := p.Field(pkgPart, "Partitions", "Last")
	partsF := p.Field(pkgPart, "Partitions", "Partitions")
	sizeF := p.Field(pkgPart, "Partitions", "PartitionSize")
	locF := p.Field(pkgPart, "partition", "Loc")
	if itemsF == nil || changedF == nil || lastF == nil || partsF == nil || sizeF == nil || locF == nil {
		r.Unresolved("C25.dirty", "partition/Partitions fields")
		return
	}
	P := func(n string) *ssa.Function { return p.Func("(*" + pkgPart + ".Partitions)." + n) }
	Q := func(n string) *ssa.Function { return p.Func("(*" + pkgPart + ".partition)." + n) }
	need := map[string]*ssa.Function{}
	for _, n := range []string{"add", "pack", "getPartition", "Save", "removeItem", "Remove", "RemoveX", "loadLastFromPrev", "removeFromLast", "saveItemLoc", "removeItemLoc", "getItemPartIndex", "Size", "Add", "AddX"} {
		need["P."+n] = P(n)
	}
	for _, n := range []string{"add", "addRaw", "find", "length", "changed", "save", "load", "cutTail"} {
		need["q."+n] = Q(n)
	}
	for k, f := range need {
		if f == nil {
			r.Unresolved("C25.dirty", "partitions function "+k)
			return
		}
	}
	isGen := func(fn *ssa.Function) bool { return strings.Contains(p.Pos(fn.Pos()), "_gen.go") }
	isLast := func(v ssa.Value) bool {
		f, _ := loadOfAnyField(v)
		return f == lastF
	}
	sameObj := func(a, b ssa.Value) bool {
		if a == b || canonObj(a) == canonObj(b) {
			return true
		}
		fa, ra := loadOfAnyField(a)
		fb, rb := loadOfAnyField(b)
		return fa != nil && fa == fb && ra == rb
	}

	// ---- C25.dirty
	nDirty := 0
	for _, fn := range p.FuncsIn(pkgPart) {
		if fn.Blocks == nil || isGen(fn) || fn.Parent() != nil {
			continue
		}
		for _, b := range fn.Blocks {
			for _, in := range b.Instrs {
				st, ok := in.(*ssa.Store)
				if !ok {
					continue
				}
				var obj ssa.Value
				switch a := st.Addr.(type) {
				case *ssa.FieldAddr:
					if core.FieldOf(a) == itemsF {
						obj = a.X
					}
				case *ssa.IndexAddr:
					if f, rv := loadOfAnyField(a.X); f == itemsF {
						obj = rv
					}
				}
				if obj == nil {
					continue
				}
				if _, fresh := obj.(*ssa.Alloc); fresh {
					continue
				}
				if isLast(obj) {
					continue // the tail is stored inside the header, which Save always writes
				}
				if fn.Name() == "CopyFrom" || fn.Name() == "clone" {
					continue
				}
				nDirty++
				marks := func(x ssa.Instruction) bool {
					if c, isCall := x.(*ssa.Call); isCall {
						// a helper on the same partition that sets the flag on every path
						cal := c.Common().StaticCallee()
						if cal == nil || cal.Pkg == nil || cal.Pkg.Pkg.Path() != pkgPart || len(c.Call.Args) == 0 || !sameObj(c.Call.Args[0], obj) || len(cal.Params) == 0 {
							return false
						}
						return c25AlwaysMarks(cal, changedF)
					}
					s2, ok := x.(*ssa.Store)
					if !ok {
						return false
					}
					fa, ok := s2.Addr.(*ssa.FieldAddr)
					if !ok || core.FieldOf(fa) != changedF || !sameObj(fa.X, obj) {
						return false
					}
					c, isC := s2.Val.(*ssa.Const)
					return isC && c.Value != nil && c.Value.String() == "true"
				}
				bad := ""
				for _, ret := range core.SuccessExits(fn) {
					if ret.Block() == fn.Recover {
						continue
					}
					path, _, found := core.PathQuery{Fn: fn, Start: st, Barrier: marks, EdgeOK: core.FeasibleEdge,
						Target: func(x ssa.Instruction) bool { return x == ssa.Instruction(ret) }}.Find()
					if found {
						bad = "success exit reachable without Changed = true: " + p.PathString(path)
					}
				}
				r.Check(bad == "", "C25.dirty", fmt.Sprintf("%s:items-write@%s", fn.String(), describe(obj)), p.Pos(st.Pos()), "a stored partition whose items changed is marked for Save; "+bad)
			}
		}
	}
	r.Floor("C25.dirty", "writes to Items of possibly stored partitions", nDirty, 6)

	// ---- C25.cache
	{
		gp := need["P.getPartition"]
		for _, c := range findCallsTo(gp, need["q.load"]) {
			part := c.Call.Args[0]
			reg := func(x ssa.Instruction) bool {
				mu, ok := x.(*ssa.MapUpdate)
				if !ok {
					return false
				}
				f, _ := loadOfAnyField(mu.Map)
				return f == partsF && mu.Value == part && mu.Key == ssa.Value(gp.Params[2])
			}
			bad := ""
			n := 0
			for _, ret := range core.SuccessExits(gp) {
				if core.ResultValue(ret, 0) != part {
					continue
				}
				n++
				path, _, found := core.PathQuery{Fn: gp, Start: c, Barrier: reg, EdgeOK: core.FeasibleEdge,
					Target: func(x ssa.Instruction) bool { return x == ssa.Instruction(ret) }}.Find()
				if found {
					bad = "returned without p.Partitions[i] = part: " + p.PathString(path)
				}
			}
			r.Check(bad == "" && n > 0, "C25.cache", "getPartition:loaded-partition-registered", p.Pos(c.Pos()), "a partition loaded from the state is kept in p.Partitions under its index; "+bad)
		}
		r.Floor("C25.cache", "load sites in getPartition", len(findCallsTo(gp, need["q.load"])), 1)
	}

	// ---- C25.save
	c25Save(r, p, need["P.Save"], partsF, need["q.changed"], need["q.save"])

	// ---- C25.location
	c25Location(r, p, need, itemsF, lastF, locF)

	// ---- C25.lookup-order
	c25Lookup(r, p, need, lastF)

	c25Sealed(r, p, need, partsF, changedF)
	// ---- C25.locations-cache
	c25LocationsCache(r, p, itemsF, lastF, partsF)

	// ---- C25.tail
	c25Tail(r, p, need, lastF, sizeF)

	// ---- C25.size
	{
		sz := need["P.Size"]
		n := 0
		for _, ret := range core.SuccessExits(sz) {
			v := core.ResultValue(ret, 0)
			k := fmt.Sprintf("Size:return@b%d", ret.Block().Index)
			if z, ok := core.ConstInt(v); ok && z == 0 {
				empty := false
				for _, f := range CmpFacts(ret.Block()) {
					if c, ok := f.X.(*ssa.Call); ok && c.Common().StaticCallee() == need["q.length"] && isLast(c.Call.Args[0]) {
						if z, isC := core.ConstInt(f.Y); isC && z == 0 && (f.Op == token.EQL || f.Op == token.LEQ) {
							empty = true
						}
					}
				}
				r.Check(empty, "C25.size", k, p.Pos(ret.Pos()), "0 only for an empty tail")
				continue
			}
			n++
			okF := false
			if add, ok := v.(*ssa.BinOp); ok && add.Op == token.ADD {
				isLen := func(x ssa.Value) bool {
					c, ok := x.(*ssa.Call)
					return ok && c.Common().StaticCallee() == need["q.length"] && isLast(c.Call.Args[0])
				}
				isProd := func(x ssa.Value) bool {
					m, ok := x.(*ssa.BinOp)
					if !ok || m.Op != token.MUL {
						return false
					}
					isLoc := func(y ssa.Value) bool {
						f, rv := loadOfAnyField(y)
						return f == locF && isLast(rv)
					}
					isPS := func(y ssa.Value) bool { f, _ := loadOfAnyField(y); return f == sizeF }
					return (isLoc(m.X) && isPS(m.Y)) || (isLoc(m.Y) && isPS(m.X))
				}
				okF = (isLen(add.X) && isProd(add.Y)) || (isLen(add.Y) && isProd(add.X))
			}
			r.Check(okF, "C25.size", k, p.Pos(ret.Pos()), "Last.Loc*PartitionSize + Last.length()")
		}
		r.Floor("C25.size", "Size formula returns", n, 1)
	}
}

// elemIDOf: v is the ID field of the element visited by rl (directly or through the
// local cell the range variable lives in).
func elemFieldOf(rl RangeLoop, v ssa.Value, field string) bool {
	isElemVal := func(x ssa.Value) bool { return rl.IsElem(x) }
	switch x := v.(type) {
	case *ssa.Field:
		return isElemVal(x.X) && core.FieldOf(x) != nil && core.FieldOf(x).Name() == field
	case *ssa.UnOp:
		if x.Op != token.MUL {
			return false
		}
		fa, ok := x.X.(*ssa.FieldAddr)
		if !ok || core.FieldOf(fa) == nil || core.FieldOf(fa).Name() != field {
			return false
		}
		if rl.IsElem(fa.X) {
			return true
		}
		if al, ok := fa.X.(*ssa.Alloc); ok {
			sts := core.StoresTo(al)
			if len(sts) == 0 {
				return false
			}
			for _, sv := range sts {
				if !isElemVal(sv) {
					return false
				}
			}
			return true
		}
	}
	return false
}

func c25Save(r *core.Report, p *core.Prog, save *ssa.Function, partsF *types.Var, changed, psave *ssa.Function) {
	// the saving loop
	var loop *RangeLoop
	var sv *ssa.Call
	for _, rl := range RangeLoops(save) {
		rl := rl
		for _, c := range findCallsTo(save, psave) {
			if rl.L.Body[c.Block()] {
				loop, sv = &rl, c
			}
		}
	}
	if !r.Check(loop != nil, "C25.save", "Save:loop", p.Pos(save.Pos()), "a complete loop saves the partitions") {
		return
	}
	// the loop ranges over keys derived from p.Partitions, and the saved partition is p.Partitions[key]
	fs, _ := FlowLoads(loop.Slice)
	fromParts := false
	for k := range fs {
		if strings.HasSuffix(k, ".Partitions") {
			fromParts = true
		}
	}
	// keys produced by a call on a value built from p.Partitions (sortedmap.NewFromMap(p.Partitions).GetKeys())
	if !fromParts {
		var walk func(v ssa.Value, d int) bool
		walk = func(v ssa.Value, d int) bool {
			if d > 5 {
				return false
			}
			if f, _ := loadOfAnyField(v); f == partsF {
				return true
			}
			if c, ok := v.(*ssa.Call); ok {
				for _, a := range c.Call.Args {
					if walk(a, d+1) {
						return true
					}
				}
				if c.Common().IsInvoke() {
					return walk(c.Common().Value, d+1)
				}
			}
			if e, ok := v.(*ssa.Extract); ok {
				return walk(e.Tuple, d+1)
			}
			if ct, ok := v.(*ssa.ChangeType); ok {
				return walk(ct.X, d+1)
			}
			return false
		}
		fromParts = walk(loop.Slice, 0)
	}
	r.Check(fromParts, "C25.save", "Save:all-keys", p.Pos(sv.Pos()), "the loop ranges over the keys of p.Partitions")
	part := sv.Call.Args[0]
	okPart := false
	if lk, ok := part.(*ssa.Lookup); ok {
		if f, _ := loadOfAnyField(lk.X); f == partsF && loop.IsElem(lk.Index) {
			okPart = true
		}
	}
	r.Check(okPart, "C25.save", "Save:saves-visited", p.Pos(sv.Pos()), "the partition saved is p.Partitions[visited key]")
	// with the clean (changed() == false) edge removed, an iteration cannot end without the save
	okB, why := true, ""
	{
		body := loop.L.Header.Succs[0]
		path, _, found := core.PathQuery{Fn: save, Start: body.Instrs[0], Barrier: func(x ssa.Instruction) bool { return x == ssa.Instruction(sv) },
			EdgeOK: func(from *ssa.BasicBlock, i int) bool {
				if ifi, ok := from.Instrs[len(from.Instrs)-1].(*ssa.If); ok && loop.L.Body[from] && from != loop.L.Header {
					c, taken := stripNot(ifi.Cond, i == 0)
					if cc, ok := c.(*ssa.Call); ok && cc.Common().StaticCallee() == changed && !taken {
						return false
					}
					if f, _ := loadOfAnyField(c); f != nil && f.Name() == "Changed" && !taken {
						return false
					}
				}
				return core.FeasibleEdge(from, i)
			},
			Target: func(x ssa.Instruction) bool { return x == loop.L.Header.Instrs[0] }}.Find()
		if found {
			okB, why = false, "an iteration with changed() true ends without save: "+p.PathString(path)
		}
	}
	r.Check(okB, "C25.save", "Save:changed-partition-saved", p.Pos(sv.Pos()), "every changed partition is saved in its iteration "+why)
	r.Check(core.ErrLeadsToFailure(sv), "C25.save", "Save:save-error-aborts", p.Pos(sv.Pos()), "a failed partition save fails Save")
	// header
	var hdr *ssa.Call
	for _, b := range save.Blocks {
		for _, in := range b.Instrs {
			if c, ok := in.(*ssa.Call); ok && core.MethodName(c.Common()) == "InsertTrieNode" {
				args := core.CallArgs(c.Common())
				if len(args) >= 2 {
					if f, rv := loadOfAnyField(args[len(args)-2]); f != nil && f.Name() == "Name" && rv == ssa.Value(save.Params[0]) && args[len(args)-1] != nil {
						hdr = c
					}
				}
			}
		}
	}
	if r.Check(hdr != nil, "C25.save", "Save:header", p.Pos(save.Pos()), "InsertTrieNode(p.Name, p)") {
		okH, whyH := MustPass(p, save, hdr)
		r.Check(okH && core.ErrLeadsToFailure(hdr), "C25.save", "Save:header-on-every-path", p.Pos(hdr.Pos()), "the header (with the tail) is written on every success path, error aborting "+whyH)
	}
}

func c25Location(r *core.Report, p *core.Prog, need map[string]*ssa.Function, itemsF, lastF, locF *types.Var) {
	saveLoc, rmLoc := need["P.saveItemLoc"], need["P.removeItemLoc"]
	isLast := func(v ssa.Value) bool { f, _ := loadOfAnyField(v); return f == lastF }
	// (a) pack
	{
		pack := need["P.pack"]
		var lastStore *ssa.Store
		for _, w := range core.FieldWrites([]*ssa.Function{pack}, lastF) {
			if st, ok := w.Instr.(*ssa.Store); ok {
				lastStore = st
			}
		}
		var loop *RangeLoop
		var call *ssa.Call
		for _, rl := range RangeLoops(pack) {
			rl := rl
			for _, c := range findCallsTo(pack, saveLoc) {
				if rl.L.Body[c.Block()] {
					loop, call = &rl, c
				}
			}
		}
		ok := loop != nil && lastStore != nil
		d := "loop over the tail's items calling saveItemLoc, then the tail is replaced"
		if ok {
			f, rv := loadOfAnyField(loop.Slice)
			ok = f == itemsF && isLast(rv)
			if !ok {
				d = "the loop does not range over p.Last.Items"
			}
		}
		if ok {
			ok = elemFieldOf(*loop, call.Call.Args[2], "ID")
			if !ok {
				d = "saveItemLoc is not given the visited item's ID"
			}
		}
		if ok {
			// location = the tail's Loc read before the tail is replaced
			fl, rv := loadOfAnyField(call.Call.Args[3])
			ok = fl == locF && isLast(rv) && Before(call.Call.Args[3].(ssa.Instruction), lastStore)
			if !ok {
				d = "the recorded location is not the sealed tail's Loc"
			}
		}
		if ok {
			okB, why := loop.BodyMustPass(p, call)
			ok = okB && core.ErrLeadsToFailure(call)
			if !ok {
				d = "an item can be skipped or a failure ignored: " + why
			}
		}
		if ok {
			ok = loop.L.Header.Dominates(lastStore.Block()) && !loop.L.Body[lastStore.Block()]
			if !ok {
				d = "the tail is replaced before/without recording the locations"
			}
		}
		r.Check(ok, "C25.location", "pack:locations-of-sealed-tail", p.Pos(pack.Pos()), d)
	}
	// (b) removeItem: moved item
	{
		ri := need["P.removeItem"]
		cuts := findCallsTo(ri, need["q.cutTail"])
		raws := findCallsTo(ri, need["q.addRaw"])
		if r.Check(len(cuts) == 1 && len(raws) == 1, "C25.location", "removeItem:move", p.Pos(ri.Pos()), fmt.Sprintf("%d cutTail / %d addRaw", len(cuts), len(raws))) {
			cut, raw := cuts[0], raws[0]
			// addRaw(part, *replace)
			okMove := false
			if ld, ok := raw.Call.Args[1].(*ssa.UnOp); ok && ld.Op == token.MUL && ld.X == ssa.Value(cut) {
				okMove = true
			}
			okMove = okMove && isLast(cut.Call.Args[0]) && !isLast(raw.Call.Args[0])
			r.Check(okMove, "C25.location", "removeItem:moves-tail-item", p.Pos(raw.Pos()), "the item cut from the tail is the one added to the partition with the hole")
			isRec := func(x ssa.Instruction) bool {
				c, ok := x.(*ssa.Call)
				if !ok || c.Common().StaticCallee() != saveLoc {
					return false
				}
				idv := c.Call.Args[2]
				ld, ok := idv.(*ssa.UnOp)
				if !ok {
					return false
				}
				fa, ok := ld.X.(*ssa.FieldAddr)
				if !ok || core.FieldOf(fa) == nil || core.FieldOf(fa).Name() != "ID" || fa.X != ssa.Value(cut) {
					return false
				}
				return c.Call.Args[3] == ssa.Value(ri.Params[3]) && core.ErrLeadsToFailure(c)
			}
			bad := ""
			for _, ret := range core.SuccessExits(ri) {
				if !core.Reaches(raw, ret) {
					continue
				}
				path, _, found := core.PathQuery{Fn: ri, Start: raw, Barrier: isRec, EdgeOK: core.FeasibleEdge,
					Target: func(x ssa.Instruction) bool { return x == ssa.Instruction(ret) }}.Find()
				if found {
					bad = p.PathString(path)
				}
			}
			r.Check(bad == "", "C25.location", "removeItem:moved-item-location", p.Pos(raw.Pos()), "after the move saveItemLoc(moved.ID, index) is crossed (error aborting) on every success path "+bad)
		}
	}
	// (c) Remove / RemoveX
	// the carriers: every function of the package that calls removeItem (Remove and RemoveX
	// themselves, or a helper they share); Remove/RemoveX must reach one
	var rmCarriers []*ssa.Function
	for _, f := range p.FuncsIn(pkgPart) {
		if f.Blocks != nil && f != need["P.removeItem"] && len(findCallsTo(f, need["P.removeItem"])) > 0 {
			rmCarriers = append(rmCarriers, f)
		}
	}
	sort.Slice(rmCarriers, func(i, j int) bool { return rmCarriers[i].Name() < rmCarriers[j].Name() })
	for _, fn := range rmCarriers {
		name := fn.Name()
		for i, c := range findCallsTo(fn, need["P.removeItem"]) {
			idArg := c.Call.Args[2]
			isRm := func(x ssa.Instruction) bool {
				cc, ok := x.(*ssa.Call)
				return ok && cc.Common().StaticCallee() == rmLoc && cc.Call.Args[2] == idArg
			}
			bad := ""
			for _, ret := range core.SuccessExits(fn) {
				if !core.Reaches(c, ret) {
					continue
				}
				path, _, found := core.PathQuery{Fn: fn, Start: c, Barrier: isRm, EdgeOK: core.FeasibleEdge,
					Target: func(x ssa.Instruction) bool { return x == ssa.Instruction(ret) }}.Find()
				if found {
					bad = p.PathString(path)
				}
			}
			okErr := true
			for _, b := range fn.Blocks {
				for _, in := range b.Instrs {
					if isRm(in) {
						cc := in.(*ssa.Call)
						if !core.ErrLeadsToFailure(cc) {
							// `return p.removeItemLoc(...)` is fine: the error is the result
							ret := false
							for _, ref := range *cc.Referrers() {
								if _, isRet := ref.(*ssa.Return); isRet {
									ret = true
								}
							}
							okErr = okErr && ret
						}
					}
				}
			}
			r.Check(bad == "" && okErr, "C25.location", fmt.Sprintf("%s:location-removed#%d", name, i+1), p.Pos(c.Pos()), "removeItemLoc(id) follows a successful removeItem on every success path "+bad)
		}
	}
	for _, name := range []string{"Remove", "RemoveX"} {
		ls := LiftCalls(need["P."+name], func(c *ssa.CallCommon) bool { return core.StaticCallee(c) == need["P.removeItem"] }, 1)
		okL := len(ls) > 0
		for _, l := range ls {
			okL = okL && l.ErrFails()
		}
		r.Check(okL, "C25.location", name+":removes-through-removeItem", p.Pos(need["P."+name].Pos()), fmt.Sprintf("%d removeItem sites (directly or in a helper whose failure fails %s)", len(ls), name))
	}
	// (d) loadLastFromPrev
	{
		fn := need["P.loadLastFromPrev"]
		var lastStore *ssa.Store
		for _, w := range core.FieldWrites([]*ssa.Function{fn}, lastF) {
			if st, ok := w.Instr.(*ssa.Store); ok {
				lastStore = st
			}
		}
		var loop *RangeLoop
		var call *ssa.Call
		for _, rl := range RangeLoops(fn) {
			rl := rl
			for _, c := range findCallsTo(fn, rmLoc) {
				if rl.L.Body[c.Block()] {
					loop, call = &rl, c
				}
			}
		}
		ok := loop != nil && lastStore != nil
		d := "the partition that becomes the tail has the location of every item removed"
		if ok {
			f, rv := loadOfAnyField(loop.Slice)
			ok = f == itemsF && (rv == lastStore.Val || isLast(rv))
			if !ok {
				d = "the loop does not range over the new tail's items"
			}
		}
		if ok {
			ok = elemFieldOf(*loop, call.Call.Args[2], "ID")
			if !ok {
				d = "removeItemLoc is not given the visited item's ID"
			}
		}
		if ok {
			okB, why := loop.BodyMustPass(p, call)
			ok = okB && core.ErrLeadsToFailure(call)
			if !ok {
				d = "an item can be skipped or a failure ignored: " + why
			}
		}
		if ok {
			bad := ""
			for _, ret := range core.SuccessExits(fn) {
				if !core.Reaches(lastStore, ret) {
					continue
				}
				path, _, found := core.PathQuery{Fn: fn, Start: lastStore, Barrier: func(x ssa.Instruction) bool { return x == loop.L.Header.Instrs[0] }, EdgeOK: core.FeasibleEdge,
					Target: func(x ssa.Instruction) bool { return x == ssa.Instruction(ret) }}.Find()
				if found {
					bad = p.PathString(path)
				}
			}
			ok = bad == ""
			if !ok {
				d = "the tail is replaced and a success exit skips the location clean-up: " + bad
			}
		}
		r.Check(ok, "C25.location", "loadLastFromPrev:locations-of-new-tail", p.Pos(fn.Pos()), d)
	}
}

func c25Lookup(r *core.Report, p *core.Prog, need map[string]*ssa.Function, lastF *types.Var) {
	isLast := func(v ssa.Value) bool { f, _ := loadOfAnyField(v); return f == lastF }
	find, gipi := need["q.find"], need["P.getItemPartIndex"]
	missFact := func(b *ssa.BasicBlock, callee *ssa.Function, lastOnly bool, okIdx int) bool {
		for _, f := range core.FactsAt(b) {
			c, taken := stripNot(f.Cond, f.Taken)
			ex, ok := c.(*ssa.Extract)
			if !ok || ex.Index != okIdx || taken {
				continue
			}
			cc, ok := ex.Tuple.(*ssa.Call)
			if !ok || cc.Common().StaticCallee() != callee {
				continue
			}
			if lastOnly && !isLast(cc.Call.Args[0]) {
				continue
			}
			return true
		}
		return false
	}
	n := 0
	for _, fn := range p.FuncsIn(pkgPart) {
		if fn.Blocks == nil || fn.Parent() != nil || fn == gipi {
			continue
		}
		calls := findCallsTo(fn, gipi)
		if len(calls) == 0 {
			continue
		}
		// does this function search the tail itself?
		searches := false
		for _, c := range findCallsTo(fn, find) {
			if isLast(c.Call.Args[0]) {
				searches = true
			}
		}
		for i, c := range calls {
			n++
			key := fmt.Sprintf("%s:index-lookup#%d", fn.Name(), i+1)
			if searches {
				r.Check(missFact(c.Block(), find, true, 2), "C25.lookup-order", key, p.Pos(c.Pos()), "the location index is consulted only after p.Last.find(id) missed (tail items have no index entry)")
				continue
			}
			// Add / AddX: the tail is searched by p.add afterwards
			adds := findCallsTo(fn, need["P.add"])
			if len(adds) == 0 {
				// a helper for items outside the tail: judged where it is called — every call
				// site lies behind the tail's find having missed
				var sites []*ssa.Call
				for _, g := range p.FuncsIn(pkgPart) {
					if g.Blocks != nil && g != fn {
						sites = append(sites, findCallsTo(g, fn)...)
					}
				}
				okH := len(sites) > 0
				for _, cs := range sites {
					if !missFact(cs.Block(), find, true, 2) {
						okH = false
					}
				}
				if okH {
					r.Pass("C25.lookup-order", key, p.Pos(c.Pos()), fmt.Sprintf("helper called at %d sites, each after p.Last.find(id) missed", len(sites)))
					continue
				}
			}
			okA := len(adds) > 0
			for _, a := range adds {
				if !missFact(a.Block(), gipi, false, 1) {
					okA = false
				}
			}
			r.Check(okA, "C25.lookup-order", key, p.Pos(c.Pos()), "the function does not search the tail itself: it must hand over to p.add (which does) only after the index missed")
		}
	}
	r.Floor("C25.lookup-order", "getItemPartIndex call sites", n, 6)
	// Last.add only after the tail's find missed
	add := need["P.add"]
	m := 0
	for _, c := range findCallsTo(add, need["q.add"]) {
		m++
		r.Check(isLast(c.Call.Args[0]) && missFact(c.Block(), find, true, 2), "C25.lookup-order", fmt.Sprintf("add:tail-add#%d", m), p.Pos(c.Pos()), "an item enters the tail only after p.Last.find(id) missed")
	}
	r.Floor("C25.lookup-order", "tail add sites", m, 1)
}

func c25Tail(r *core.Report, p *core.Prog, need map[string]*ssa.Function, lastF, sizeF *types.Var) {
	isLast := func(v ssa.Value) bool { f, _ := loadOfAnyField(v); return f == lastF }
	add, pack, length := need["P.add"], need["P.pack"], need["q.length"]
	isFullCond := func(v ssa.Value) (full bool, ok bool) {
		// returns (sense, true) when v is `Last.length() == PartitionSize` (sense true) or `!=` (false) or `>=`
		bo, isB := v.(*ssa.BinOp)
		if !isB {
			return false, false
		}
		isLen := func(x ssa.Value) bool {
			c, ok := x.(*ssa.Call)
			return ok && c.Common().StaticCallee() == length && isLast(c.Call.Args[0])
		}
		isPS := func(x ssa.Value) bool { f, _ := loadOfAnyField(x); return f == sizeF }
		if !((isLen(bo.X) && isPS(bo.Y)) || (isLen(bo.Y) && isPS(bo.X))) {
			return false, false
		}
		switch bo.Op {
		case token.EQL:
			return true, true
		case token.NEQ:
			return false, true
		case token.GEQ:
			if isLen(bo.X) {
				return true, true
			}
		case token.LSS:
			if isLen(bo.X) {
				return false, true
			}
		}
		return false, false
	}
	packs := findCallsTo(add, pack)
	tailAdds := findCallsTo(add, need["q.add"])
	if !r.Check(len(packs) == 1 && len(tailAdds) >= 1, "C25.tail", "add:pack-and-add", p.Pos(add.Pos()), fmt.Sprintf("%d pack / %d tail add", len(packs), len(tailAdds))) {
		return
	}
	pk := packs[0]
	// pack only when full
	full := false
	for _, f := range core.FactsAt(pk.Block()) {
		c, taken := stripNot(f.Cond, f.Taken)
		if sense, ok := isFullCond(c); ok && sense == taken {
			full = true
		}
	}
	r.Check(full, "C25.tail", "add:pack-only-when-full", p.Pos(pk.Pos()), "pack runs under Last.length() == PartitionSize (every sealed partition is full)")
	r.Check(core.ErrLeadsToFailure(pk), "C25.tail", "add:pack-error-aborts", p.Pos(pk.Pos()), "a failed pack fails the add")
	for i, ta := range tailAdds {
		path, _, found := core.PathQuery{Fn: add, Barrier: func(x ssa.Instruction) bool { return x == ssa.Instruction(pk) },
			EdgeOK: func(from *ssa.BasicBlock, k int) bool {
				if !core.FeasibleEdge(from, k) {
					return false
				}
				if ifi, ok := from.Instrs[len(from.Instrs)-1].(*ssa.If); ok {
					c, taken := stripNot(ifi.Cond, k == 0)
					if sense, ok := isFullCond(c); ok && sense != taken {
						return false // not full: adding directly is right
					}
				}
				return true
			},
			Target: func(x ssa.Instruction) bool { return x == ssa.Instruction(ta) }}.Find()
		// the search above only follows "full" edges; it must at least be able to leave the entry
		hasTest := false
		for _, b := range add.Blocks {
			if ifi, ok := b.Instrs[len(b.Instrs)-1].(*ssa.If); ok {
				c, _ := stripNot(ifi.Cond, true)
				if _, ok := isFullCond(c); ok {
					hasTest = true
				}
			}
		}
		r.Check(hasTest && !found, "C25.tail", fmt.Sprintf("add:full-tail-packed-first#%d", i+1), p.Pos(ta.Pos()), "the tail add is not reached from the full edge without pack "+p.PathString(path))
	}
	// compaction after removals from the tail
	llfp := need["P.loadLastFromPrev"]
	for _, name := range []string{"removeFromLast", "removeItem"} {
		fn := need["P."+name]
		// removals from the tail in this function: stores to Last.Items / cutTail on Last
		var removals []ssa.Instruction
		for _, b := range fn.Blocks {
			for _, in := range b.Instrs {
				switch x := in.(type) {
				case *ssa.Store:
					if fa, ok := x.Addr.(*ssa.FieldAddr); ok && core.FieldOf(fa) != nil && core.FieldOf(fa).Name() == "Items" && isLast(fa.X) {
						removals = append(removals, x)
					}
				case *ssa.Call:
					if x.Common().StaticCallee() == need["q.cutTail"] && isLast(x.Call.Args[0]) {
						removals = append(removals, x)
					}
				}
			}
		}
		if !r.Check(len(removals) > 0, "C25.tail", name+":tail-removal", p.Pos(fn.Pos()), "the function shortens the tail") {
			continue
		}
		// tailKnownNonEmpty: Last.length() > 0 holds at b
		tailKnownNonEmpty := func(b *ssa.BasicBlock) bool {
			for _, f := range CmpFacts(b) {
				if c, ok := f.X.(*ssa.Call); ok && c.Common().StaticCallee() == length && isLast(c.Call.Args[0]) {
					if z, isC := core.ConstInt(f.Y); isC && ((z == 0 && (f.Op == token.GTR || f.Op == token.NEQ)) || (z == 1 && f.Op == token.GEQ)) {
						return true
					}
				}
			}
			return false
		}
		// refillHelper: a function of the package every success exit of which leaves a
		// non-empty tail or goes through loadLastFromPrev (`refillLastIfEmpty`)
		refillHelper := func(h *ssa.Function) bool {
			if h == nil || h.Blocks == nil || h.Pkg != fn.Pkg || h == fn {
				return false
			}
			n := 0
			for _, ret := range core.Returns(h) {
				if core.ClassifyReturn(ret) == core.ExitFailure {
					continue
				}
				n++
				if c, ok := core.ResultValue(ret, h.Signature.Results().Len()-1).(*ssa.Call); ok && c.Common().StaticCallee() == llfp {
					continue
				}
				if tailKnownNonEmpty(ret.Block()) {
					continue
				}
				via := false
				for _, c := range findCallsTo(h, llfp) {
					if c.Block().Dominates(ret.Block()) && core.ErrLeadsToFailure(c) {
						via = true
					}
				}
				if !via {
					return false
				}
			}
			return n > 0
		}
		for i, rm := range removals {
			bad := ""
			for _, ret := range core.SuccessExits(fn) {
				if !core.Reaches(rm, ret) {
					continue
				}
				// a success exit after the removal: either it returns loadLastFromPrev's result, or the tail is known non-empty
				if c, ok := core.ResultValue(ret, fn.Signature.Results().Len()-1).(*ssa.Call); ok && (c.Common().StaticCallee() == llfp || refillHelper(c.Common().StaticCallee())) {
					continue
				}
				nonEmpty := false
				for _, f := range CmpFacts(ret.Block()) {
					if c, ok := f.X.(*ssa.Call); ok && c.Common().StaticCallee() == length && isLast(c.Call.Args[0]) {
						if z, isC := core.ConstInt(f.Y); isC && ((z == 0 && (f.Op == token.GTR || f.Op == token.NEQ)) || (z == 1 && f.Op == token.GEQ)) {
							nonEmpty = true
						}
					}
				}
				// the fact must be established after the removal
				if nonEmpty {
					continue
				}
				// or loadLastFromPrev was called and checked on the way
				viaCompaction := false
				for _, c := range findCallsTo(fn, llfp) {
					if core.Reaches(rm, c) && c.Block().Dominates(ret.Block()) {
						viaCompaction = true
					}
				}
				for _, cs := range core.CallsIn(fn, false, nil) {
					if c, ok := cs.Instr.(*ssa.Call); ok && refillHelper(core.StaticCallee(c.Common())) && core.Reaches(rm, c) && c.Block().Dominates(ret.Block()) && core.ErrLeadsToFailure(c) {
						viaCompaction = true
					}
				}
				if !viaCompaction {
					bad = fmt.Sprintf("success exit at %s with a possibly empty tail", p.Pos(ret.Pos()))
				}
			}
			r.Check(bad == "", "C25.tail", fmt.Sprintf("%s:compaction#%d", name, i+1), p.Pos(rm.Pos()), "after shortening the tail the function succeeds only with Last.length() > 0 or through loadLastFromPrev; "+bad)
		}
	}
}

// c25AlwaysMarks: every path through fn stores true into receiver.Changed.
func c25AlwaysMarks(fn *ssa.Function, changedF *types.Var) bool {
	if fn.Blocks == nil {
		return false
	}
	mark := func(x ssa.Instruction) bool {
		st, ok := x.(*ssa.Store)
		if !ok {
			return false
		}
		fa, ok := st.Addr.(*ssa.FieldAddr)
		if !ok || core.FieldOf(fa) != changedF || fa.X != ssa.Value(fn.Params[0]) {
			return false
		}
		c, isC := st.Val.(*ssa.Const)
		return isC && c.Value != nil && c.Value.String() == "true"
	}
	_, _, found := core.PathQuery{Fn: fn, Barrier: mark, EdgeOK: core.FeasibleEdge,
		Target: func(x ssa.Instruction) bool { _, isRet := x.(*ssa.Return); return isRet }}.Find()
	return !found
}

// c25LocationsCache: who may put entries into Partitions.locations.
func c25LocationsCache(r *core.Report, p *core.Prog, itemsF, lastF, partsF *types.Var) {
	locsF := p.Field(pkgPart, "Partitions", "locations")
	if locsF == nil {
		r.Unresolved("C25.locations-cache", "Partitions.locations")
		return
	}
	mayReturnTail := func(fn *ssa.Function) bool {
		for _, ret := range core.Returns(fn) {
			for i := range ret.Results {
				v := core.ResultValue(ret, i)
				vals := []ssa.Value{v}
				if ph, ok := v.(*ssa.Phi); ok {
					vals = ph.Edges
				}
				for _, x := range vals {
					if f, _ := loadOfAnyField(x); f == lastF {
						return true
					}
				}
			}
		}
		return false
	}
	sameKey := func(a, b ssa.Value) bool {
		if a == b {
			return true
		}
		ca, ok1 := a.(*ssa.Call)
		cb, ok2 := b.(*ssa.Call)
		if !ok1 || !ok2 || ca.Common().StaticCallee() == nil || ca.Common().StaticCallee() != cb.Common().StaticCallee() || len(ca.Call.Args) != len(cb.Call.Args) {
			return false
		}
		for i := range ca.Call.Args {
			if ca.Call.Args[i] != cb.Call.Args[i] {
				return false
			}
		}
		return true
	}
	n := 0
	for _, fn := range p.FuncsIn(pkgPart) {
		if fn.Blocks == nil || strings.Contains(p.Pos(fn.Pos()), "_gen.go") {
			continue
		}
		loops := RangeLoops(fn)
		for _, b := range fn.Blocks {
			for _, in := range b.Instrs {
				mu, ok := in.(*ssa.MapUpdate)
				if !ok {
					continue
				}
				if f, _ := loadOfAnyField(mu.Map); f != locsF {
					continue
				}
				n++
				key := fmt.Sprintf("%s:cache-entry#%d", fn.Name(), n)
				// (a) paired with the stored location
				paired := false
				for _, b2 := range fn.Blocks {
					for _, in2 := range b2.Instrs {
						c, ok := in2.(*ssa.Call)
						if !ok || core.MethodName(c.Common()) != "InsertTrieNode" {
							continue
						}
						args := core.CallArgs(c.Common())
						if len(args) >= 2 && sameKey(args[len(args)-2], mu.Key) && c.Block().Dominates(mu.Block()) && core.ErrLeadsToFailure(c) {
							paired = true
						}
					}
				}
				if paired {
					r.Pass("C25.locations-cache", key, p.Pos(mu.Pos()), "written together with the stored location under the same key")
					continue
				}
				// (b) items of a stored partition
				okSrc, why := false, "the entry is not written while ranging over a partition's items"
				for _, rl := range loops {
					if !rl.L.Body[mu.Block()] {
						continue
					}
					f, part := loadOfAnyField(rl.Slice)
					if f != itemsF {
						continue
					}
					src := part
					if ex, ok := src.(*ssa.Extract); ok {
						src = ex.Tuple
					}
					switch x := src.(type) {
					case *ssa.Lookup:
						if fl, _ := loadOfAnyField(x.X); fl == partsF {
							okSrc = true
						} else {
							why = "the partition is looked up somewhere else than p.Partitions"
						}
					case *ssa.Call:
						cal := x.Common().StaticCallee()
						if cal != nil && cal.Blocks != nil && !mayReturnTail(cal) {
							okSrc = true
						} else {
							why = "the partition comes from " + core.CalleeName(x.Common()) + ", which can hand out the tail: its items would get cached locations that removeFromLast never clears"
						}
					default:
						if fl, _ := loadOfAnyField(part); fl == lastF {
							why = "the partition is the tail"
						} else {
							why = "where the partition comes from is not recognised"
						}
					}
				}
				r.Check(okSrc, "C25.locations-cache", key, p.Pos(mu.Pos()), "entries are cached only for items of a stored partition; "+why)
			}
		}
	}
	r.Floor("C25.locations-cache", "writes into the locations map", n, 2)
}

// c25Sealed: the full tail moved into p.Partitions by pack has been persisted (or is dirty).
func c25Sealed(r *core.Report, p *core.Prog, need map[string]*ssa.Function, partsF, changedF *types.Var) {
	sameObj := func(a, b ssa.Value) bool {
		if a == b || canonObj(a) == canonObj(b) {
			return true
		}
		fa, ra := loadOfAnyField(a)
		fb, rb := loadOfAnyField(b)
		return fa != nil && fa == fb && ra == rb
	}
	pack := need["P.pack"]
	n := 0
	for _, b := range pack.Blocks {
		for _, in := range b.Instrs {
			var stored ssa.Value
			switch x := in.(type) {
			case *ssa.Store:
				if ia, ok := x.Addr.(*ssa.IndexAddr); ok {
					if f, _ := loadOfAnyField(ia.X); f == partsF {
						stored = x.Val
					}
				}
			case *ssa.MapUpdate:
				if f, _ := loadOfAnyField(x.Map); f == partsF {
					stored = x.Value
				}
			}
			if stored == nil {
				continue
			}
			n++
			ok := false
			for _, l := range LiftCalls(pack, func(c *ssa.CallCommon) bool { return core.StaticCallee(c) == need["q.save"] }, 1) {
				if sameObj(l.Recv(), stored) && Before(l.Site, in) && l.ErrFails() && l.MustInHelpers(p) {
					ok = true
				}
			}
			for _, w := range core.FieldWrites([]*ssa.Function{pack}, changedF) {
				if k, isK := w.Val.(*ssa.Const); isK && k.Value != nil && k.Value.ExactString() == "true" && sameObj(w.Addr.X, stored) && Before(w.Instr, in) {
					ok = true
				}
			}
			r.Check(ok, "C25.sealed-persisted", fmt.Sprintf("pack:sealed-tail-written#%d", n), posOf(p, in), "the partition registered in p.Partitions must have been saved (or marked Changed) first: Save() skips clean partitions and item locations already point at it")
		}
	}
	r.Floor("C25.sealed-persisted", "stores into p.Partitions in pack", n, 1)
}
