package props

import (
	"fmt"
	"go/types"
	"strings"

	"golang.org/x/tools/go/ssa"

	"zv/core"
)

func init() { register("C07", "other", c07) }

const pkgCache = "github.com/0chain/common/core/statecache"

// cloneKind classifies a Clone()/clone() implementation.
func cloneKind(p *core.Prog, fn *ssa.Function, depth int) (string, string) {
	if fn == nil || fn.Blocks == nil || depth > 2 {
		return "unknown", "no body"
	}
	var marshal, unmarshal *ssa.Call
	for _, cs := range core.CallsIn(fn, false, nil) {
		c, ok := cs.Instr.(*ssa.Call)
		if !ok {
			continue
		}
		switch core.MethodName(c.Common()) {
		case "MarshalMsg":
			marshal = c
		case "UnmarshalMsg":
			unmarshal = c
		}
	}
	rets := core.Returns(fn)
	if marshal != nil && unmarshal != nil {
		// marshal the receiver, unmarshal into a fresh object, return that object
		rb, _ := core.BaseObject(core.Receiver(marshal.Common()))
		recvOK := core.ParamOf(rb) == fn.Params[0] // the receiver itself or an embedded part of it
		tgt := core.Receiver(unmarshal.Common())
		fresh := false
		switch t := tgt.(type) {
		case *ssa.Alloc:
			fresh = true
		case *ssa.Call:
			// constructor returning a new object
			if cal := core.StaticCallee(t.Common()); cal != nil && len(cal.Params) == 0 {
				fresh = true
			}
		}
		// data flows marshal result → unmarshal argument
		flows := false
		for _, a := range core.CallArgs(unmarshal.Common()) {
			if c2, idx := core.CallOf(a); c2 == marshal && idx == 0 {
				flows = true
			}
			for _, al := range core.ValueAliases(a) {
				if c2, idx := core.CallOf(al); c2 == marshal && idx == 0 {
					flows = true
				}
			}
		}
		if !flows {
			// through a local variable `v`
			for _, rt := range core.Slice(core.CallArgs(unmarshal.Common())[0]) {
				if c2, idx := core.CallOf(rt.V); c2 == marshal && idx == 0 {
					flows = true
				}
			}
		}
		retOK := len(rets) >= 1
		for _, ret := range rets {
			b, _ := core.BaseObject(ret.Results[0])
			if mi, ok := ret.Results[0].(*ssa.MakeInterface); ok {
				b, _ = core.BaseObject(mi.X)
			}
			if b != tgt {
				retOK = false
			}
		}
		if recvOK && fresh && flows && retOK {
			return "roundtrip", "marshal(receiver) → unmarshal(fresh) → return fresh"
		}
		return "bad-roundtrip", fmt.Sprintf("recv=%v fresh=%v flows=%v returnsTarget=%v", recvOK, fresh, flows, retOK)
	}
	// delegate: return recv.other()
	if len(rets) == 1 {
		v := ret0(rets[0])
		if c, _ := core.CallOf(v); c != nil {
			if cal := core.StaticCallee(c.Common()); cal != nil && core.ParamOf(core.Receiver(c.Common())) == fn.Params[0] {
				k, why := cloneKind(p, cal, depth+1)
				return k, "delegates to " + cal.Name() + ": " + why
			}
		}
		// field-wise literal of a struct without reference fields
		if al, ok := v.(*ssa.Alloc); ok {
			if st, ok := al.Type().(*types.Pointer).Elem().Underlying().(*types.Struct); ok {
				for i := 0; i < st.NumFields(); i++ {
					switch st.Field(i).Type().Underlying().(type) {
					case *types.Pointer, *types.Map, *types.Slice, *types.Interface, *types.Chan:
						return "shallow", "field-wise copy of a struct with reference field " + st.Field(i).Name()
					}
				}
				return "value-copy", "field-wise copy of a struct without reference fields"
			}
		}
	}
	return "unknown", "shape not recognised"
}

func ret0(r *ssa.Return) ssa.Value {
	v := r.Results[0]
	if mi, ok := v.(*ssa.MakeInterface); ok {
		v = mi.X
	}
	return v
}

// C07 The state cache never disagrees with the state trie.
func c07(r *core.Report, p *core.Prog, thorough bool) {
	r.Explain = "Decided: every contract-key write goes through StateContext, which updates the cache only after the trie write succeeded and under the same key; reads copy a cache hit out (never hand out the cached object) and cache a miss only after a successful trie read; nobody else touches the transaction cache; every cacheable type's Clone yields a fresh deep value (msgp round trip into a fresh object, or a struct without reference fields); the cache of a failed transaction is never committed (rollback rules shared with C02). Not decided: the cache implementation in 0chain/common."
	r.Rule("C07.insert", "InsertTrieNode: trie write first; Cache().Set(key, cacheable(node)) only on its success path, same key, same node")
	r.Rule("C07.delete", "DeleteTrieNode: trie delete first; Cache().Remove(key) only on its success path, same key")
	r.Rule("C07.get", "GetTrieNode: a cache hit is copied out through CopyFrom only; a miss is cached only after a successful trie read of the same key into the same value")
	r.Rule("C07.who", "TransactionCache.Set/Remove are called only by StateContext's three accessors")
	r.Rule("C07.clone", "every implementation of statecache.Value.Clone in the module returns a fresh deep copy; CopyFrom copies from a clone (or from a value the cache already cloned)")
	r.Rule("C07.rollback", "updateState never commits the cache of a failed contract call (re-creation and deferred-commit obligations of C02)")
	ins := p.Func("(*" + typeSCtx + ").InsertTrieNode")
	del := p.Func("(*" + typeSCtx + ").DeleteTrieNode")
	get := p.Func("(*" + typeSCtx + ").GetTrieNode")
	if ins == nil || del == nil || get == nil {
		r.Unresolved("C07.insert", "StateContext accessors")
		return
	}
	setName := "(*" + pkgCache + ".TransactionCache).Set"
	remName := "(*" + pkgCache + ".TransactionCache).Remove"
	getName := "(*" + pkgCache + ".TransactionCache).Get"
	lift := func(fn *ssa.Function, names ...string) []Lifted { return LiftCalls(fn, core.NameIs(names...), 1) }
	// ---- insert
	w := lift(ins, "(*"+typeSCtx+").setNodeValue")
	s := lift(ins, setName)
	if r.Check(len(w) == 1 && len(s) == 1, "C07.insert", "InsertTrieNode:calls", p.Pos(ins.Pos()), fmt.Sprintf("setNodeValue=%d Cache.Set=%d (directly or in a helper of the package)", len(w), len(s))) {
		r.Check(w[0].ErrFails() && liftedBefore(w[0], s[0]), "C07.insert", "InsertTrieNode:trie-first", p.Pos(s[0].Pos()), "the cache is updated only after the trie write succeeded")
		wa, sa := w[0].CallArgs(), s[0].CallArgs()
		r.Check(describe(wa[0]) == "key" && describe(sa[0]) == "key", "C07.insert", "InsertTrieNode:same-key", p.Pos(s[0].Pos()), "trie key "+describe(wa[0])+", cache key "+describe(sa[0]))
		nodeOK := false
		inner, bind := core.Unbind(sa[1])
		for _, rt := range core.Slice(inner) {
			if c, ok := rt.V.(*ssa.Extract); ok {
				if cc, ok := c.Tuple.(*ssa.Call); ok && core.CalleeName(cc.Common()) == pkgCache+".Cacheable" {
					arg := cc.Call.Args[0]
					if bind != nil {
						arg = core.BindValue(arg, bind)
					}
					for _, r2 := range SliceB(arg) {
						if r2.Desc == "param:node" {
							nodeOK = true
						}
					}
				}
			}
		}
		r.Check(nodeOK && describe(wa[1]) == "node", "C07.insert", "InsertTrieNode:same-value", p.Pos(s[0].Pos()), "the cached value is the value written to the trie")
	}
	// ---- delete
	d := lift(del, "(*"+typeSCtx+").deleteNode")
	rm := lift(del, remName)
	if r.Check(len(d) == 1 && len(rm) == 1, "C07.delete", "DeleteTrieNode:calls", p.Pos(del.Pos()), fmt.Sprintf("deleteNode=%d Cache.Remove=%d", len(d), len(rm))) {
		r.Check(d[0].ErrFails() && liftedBefore(d[0], rm[0]), "C07.delete", "DeleteTrieNode:trie-first", p.Pos(rm[0].Pos()), "the cache entry is removed only after the trie delete succeeded")
		r.Check(describe(d[0].CallArgs()[0]) == "key" && describe(rm[0].CallArgs()[0]) == "key", "C07.delete", "DeleteTrieNode:same-key", p.Pos(rm[0].Pos()), "same key on both")
		ok, wmsg := MustPass(p, del, rm[0].Site)
		r.Check(ok && rm[0].MustInHelpers(p), "C07.delete", "DeleteTrieNode:always-removes", p.Pos(rm[0].Pos()), "every successful delete removes the cache entry; "+wmsg)
	}
	// ---- get
	g := findCalls(get, getName)
	gv := lift(get, "(*"+typeSCtx+").getNodeValue")
	gs := lift(get, setName)
	if r.Check(len(g) == 1 && len(gv) == 1 && len(gs) == 1, "C07.get", "GetTrieNode:calls", p.Pos(get.Pos()), fmt.Sprintf("Cache.Get=%d getNodeValue=%d Cache.Set=%d", len(g), len(gv), len(gs))) {
		// uses of the cached value: only as argument of CopyFrom (directly, or as the
		// parameter of a package helper that uses it only so)
		var cv ssa.Value
		for _, ref := range *g[0].Referrers() {
			if e, ok := ref.(*ssa.Extract); ok && e.Index == 0 {
				cv = e
			}
		}
		nCopy := 0
		var onlyCopied func(v ssa.Value, depth int) bool
		onlyCopied = func(v ssa.Value, depth int) bool {
			if v.Referrers() == nil {
				return false
			}
			for _, ref := range *v.Referrers() {
				switch u := ref.(type) {
				case *ssa.DebugRef:
				case *ssa.MakeInterface, *ssa.ChangeInterface:
					if !onlyCopied(u.(ssa.Value), depth) {
						return false
					}
				case ssa.CallInstruction:
					cc := u.Common()
					if core.MethodName(cc) == "CopyFrom" {
						nCopy++
						continue
					}
					h := core.StaticCallee(cc)
					if h == nil || h.Blocks == nil || h.Pkg != get.Pkg || depth <= 0 {
						return false
					}
					for i, a := range cc.Args {
						if a == v && (i >= len(h.Params) || !onlyCopied(h.Params[i], depth-1)) {
							return false
						}
					}
				default:
					return false
				}
			}
			return true
		}
		okUse := cv != nil && onlyCopied(cv, 1)
		r.Check(okUse, "C07.get", "GetTrieNode:hit-copied-out", p.Pos(g[0].Pos()), "a cache hit may only be copied into the caller's value with CopyFrom")
		// CopyFrom false → panic/failure
		r.Check(nCopy == 1, "C07.get", "GetTrieNode:copy-call", p.Pos(get.Pos()), fmt.Sprintf("%d CopyFrom calls on the cached value", nCopy))
		// miss path
		r.Check(gv[0].ErrFails() && liftedBefore(gv[0], gs[0]), "C07.get", "GetTrieNode:cache-after-read", p.Pos(gs[0].Pos()), "a miss is cached only after the trie read succeeded")
		ka, kb, kc := describe(core.CallArgs(g[0].Common())[0]), describe(gv[0].CallArgs()[0]), describe(gs[0].CallArgs()[0])
		r.Check(ka == "key" && kb == "key" && kc == "key", "C07.get", "GetTrieNode:same-key", p.Pos(gs[0].Pos()), "lookup "+ka+", trie "+kb+", cache "+kc)
		// the miss path must not be taken on a hit: Set dominated by ok==false of the cache lookup
		missOnly := false
		for _, f := range core.FactsAt(gs[0].Block()) {
			if e, ok := f.Cond.(*ssa.Extract); ok && e.Tuple == ssa.Value(g[0]) && e.Index == 1 && !f.Taken {
				missOnly = true
			}
		}
		r.Check(missOnly, "C07.get", "GetTrieNode:set-on-miss-only", p.Pos(gs[0].Pos()), "the trie value is cached only when the cache had no entry")
	}
	// ---- who: the three accessors, and helpers of the package called by nothing else
	n := 0
	allowed := map[string]bool{ins.String(): true, del.String(): true, get.String(): true}
	callersOf := func(h *ssa.Function) []*ssa.Function {
		var out []*ssa.Function
		for _, fn := range p.ModFuncs() {
			for _, cs := range core.CallsIn(fn, false, nil) {
				if core.StaticCallee(cs.Common()) == h {
					out = append(out, fn)
				}
			}
		}
		return out
	}
	for _, fn := range p.ModFuncs() {
		for _, c := range append(findCalls(fn, setName), findCalls(fn, remName)...) {
			n++
			en := core.EnclosingNamed(fn).String()
			ok := allowed[en] || isTooling(p, fn)
			if !ok && fn.Parent() == nil && fn.Pkg == ins.Pkg {
				cs := callersOf(fn)
				ok = len(cs) > 0
				for _, cf := range cs {
					if !allowed[core.EnclosingNamed(cf).String()] {
						ok = false
					}
				}
			}
			r.Check(ok, "C07.who", "cache-writer:"+en, p.Pos(c.Pos()), "transaction cache written outside StateContext's accessors (or a helper only they call)")
		}
	}
	r.Floor("C07.who", "TransactionCache.Set/Remove call sites", n, 2)
	// ---- clone
	vi := p.Type(pkgCache, "Value")
	nClone := 0
	if vi == nil {
		r.Unresolved("C07.clone", pkgCache+".Value")
	} else {
		iface := vi.Underlying().(*types.Interface)
		for _, fn := range p.ModFuncs() {
			if fn.Name() != "Clone" || fn.Signature.Recv() == nil || fn.Parent() != nil {
				continue
			}
			if !types.Implements(fn.Signature.Recv().Type(), iface) {
				continue
			}
			if isTooling(p, fn) {
				continue
			}
			nClone++
			kind, why := cloneKind(p, fn, 0)
			ok := kind == "roundtrip" || kind == "value-copy"
			r.Check(ok, "C07.clone", "Clone:"+core.NamedName(fn.Signature.Recv().Type()), p.Pos(fn.Pos()), kind+": "+why)
			// CopyFrom of the same type: copies from a Clone() of the argument, field-wise for value structs, or
			// relies on the cache handing out clones (whole-struct copy of the asserted argument)
			cfn := p.Func(strings.Replace(fn.String(), ").Clone", ").CopyFrom", 1))
			if cfn == nil {
				r.Fail("C07.clone", "CopyFrom:"+core.NamedName(fn.Signature.Recv().Type()), p.Pos(fn.Pos()), "no CopyFrom next to Clone")
				continue
			}
			viaClone := len(methodCalls(cfn, "Clone")) > 0 || len(methodCalls(cfn, "clone")) > 0
			how := "copies from a fresh clone of the argument"
			if !viaClone {
				if kind == "value-copy" {
					how = "field-wise copy of a struct without reference fields"
				} else {
					how = "whole-struct copy of the argument: sound only because TransactionCache.Get/BlockCache.Get hand out clones (assumption recorded)"
					r.Assume = append(r.Assume, "statecache Get returns a clone, so "+core.NamedName(fn.Signature.Recv().Type())+".CopyFrom may alias its argument")
				}
			}
			r.Pass("C07.clone", "CopyFrom:"+core.NamedName(fn.Signature.Recv().Type()), p.Pos(cfn.Pos()), how)
		}
	}
	r.Floor("C07.clone", "statecache.Value implementations", nClone, 7)
	// ---- rollback (shared with C02)
	sub := core.NewReport(p, "C02", "quick")
	c02(sub, p, false)
	k := 0
	for _, o := range sub.Obs {
		if o.Rule == "C02.rebind" || o.Rule == "C02.cache-commit" || o.Rule == "C02.commit-arg" {
			k++
			r.Check(o.OK, "C07.rollback", strings.TrimPrefix(o.Key, o.Rule+" "), o.Pos, o.Detail)
		}
	}
	r.Floor("C07.rollback", "rollback obligations", k, 10)
}
