package props

import (
	"fmt"
	"go/token"
	"strings"

	"golang.org/x/tools/go/ssa"

	"zv/core"
)

func init() { register("C05", "other", c05) }

// RawCoinOp is a raw arithmetic operation on currency.Coin outside the currency package.
type RawCoinOp struct {
	Fn *ssa.Function
	Op *ssa.BinOp
}

// RawCoinArith lists +,-,* on Coin-typed operands in fns.
func RawCoinArith(fns []*ssa.Function) []RawCoinOp {
	var out []RawCoinOp
	for _, fn := range fns {
		for _, b := range fn.Blocks {
			for _, in := range b.Instrs {
				bo, ok := in.(*ssa.BinOp)
				if !ok || !isCoin(bo.Type()) {
					continue
				}
				switch bo.Op {
				case token.ADD, token.SUB, token.MUL:
					out = append(out, RawCoinOp{fn, bo})
				}
			}
		}
	}
	return out
}

// onlyComparedOrLogged: the value feeds only comparisons, logging or debug refs.
func onlyComparedOrLogged(v ssa.Value, depth int) bool {
	refs := v.Referrers()
	if refs == nil {
		return true
	}
	for _, ref := range *refs {
		switch x := ref.(type) {
		case *ssa.DebugRef:
		case *ssa.BinOp:
			switch x.Op {
			case token.EQL, token.NEQ, token.LSS, token.GTR, token.LEQ, token.GEQ:
			default:
				return false
			}
		case *ssa.MakeInterface, *ssa.Convert, *ssa.ChangeType:
			if depth > 3 || !onlyComparedOrLogged(x.(ssa.Value), depth+1) {
				return false
			}
		case *ssa.Call:
			n := core.CalleeName(x.Common())
			if !strings.HasPrefix(n, "go.uber.org/zap.") && !strings.HasPrefix(n, "(*go.uber.org/zap.") {
				return false
			}
		default:
			return false
		}
	}
	return true
}

// subGuarded: a - b is dominated by a comparison establishing b <= a on the same values.
func subGuarded(bo *ssa.BinOp) bool {
	if leqByFacts(core.FactsAt(bo.Block()), bo.Y, bo.X) {
		return true
	}
	// clamped subtrahend: `if r > bal { r = bal }; bal -= r` — on every edge into the phi the
	// incoming value is the minuend itself or is known not to exceed it
	if ph, ok := bo.Y.(*ssa.Phi); ok && (ph.Block() == bo.Block() || ph.Block().Dominates(bo.Block())) {
		for i, e := range ph.Edges {
			if core.SameValue(e, bo.X) {
				continue
			}
			if !leqByFacts(core.EdgeFacts(ph.Block().Preds[i], ph.Block()), e, bo.X) {
				return false
			}
		}
		return true
	}
	return false
}

// leqByFacts: the facts establish b <= a.
func leqByFacts(facts []core.Fact, b, a ssa.Value) bool {
	for _, f := range facts {
		c, ok := f.Cond.(*ssa.BinOp)
		if !ok {
			continue
		}
		sx := func(u, v ssa.Value) bool {
			return core.SameValue(u, v) || (describe(u) != "" && describe(u) == describe(v) && !strings.Contains(describe(u), "call:"))
		}
		// forms establishing b <= a
		switch {
		case sx(c.X, a) && sx(c.Y, b) && ((c.Op == token.GEQ && f.Taken) || (c.Op == token.GTR && f.Taken) || (c.Op == token.LSS && !f.Taken)):
			return true
		case sx(c.X, b) && sx(c.Y, a) && ((c.Op == token.LEQ && f.Taken) || (c.Op == token.LSS && f.Taken) || (c.Op == token.GTR && !f.Taken)):
			return true
		}
	}
	return false
}

// C05 Balances never overdraw or wrap.
func c05(r *core.Report, p *core.Prog, thorough bool) {
	r.Explain = "Decided: the transfer primitive's debit is dominated by the insufficiency rejection on the same loaded state and both sides use checked arithmetic whose errors fail the transaction; updateState rejects a value above the token supply before anything else; no raw Coin arithmetic in the balance-handling packages feeds a stored value; a failed transfer fails the whole transaction before the single commit. Not decided: the checked-arithmetic library itself (dependency outside /repo)."
	r.Rule("C05.primitive", "transferAmount: insufficiency guard, checked MinusCoin/AddCoin with errors returned, both sides persisted (same obligations as C01.3)")
	r.Rule("C05.all-or-nothing", "updateState: every queued transfer's failure fails the transaction; single commit after the transfer loops (same obligations as C01.4)")
	r.Rule("C05.supply-guard", "updateState rejects txn.Value > config.MaxTokenSupply before creating the transaction context")
	r.Rule("C05.read-your-writes", "StateContext: a successful SetClientState replaces (or drops) the per-transaction cached copy of that client on every path, and GetClientState serves the cache only under a hit for the requested id — the insufficiency guard reads balances through this cache")
	c05ReadYourWrites(r, p)
	r.Rule("C05.raw-arith", "raw +,-,* on currency.Coin in chaincore/chain (state.go functions), chaincore/state and chaincore/tokenpool is a comparison/log operand only, guarded, or unreachable")
	ta := p.Func(fnTransfer)
	us := p.Func(fnUpdateState)
	if ta == nil || us == nil {
		r.Unresolved("C05.primitive", "transferAmount/updateState")
		return
	}
	c01Transfer(r, p, ta, "C05.primitive")
	c01UpdateState(r, p, us, "C05.all-or-nothing")
	// supply guard
	found := false
	var guardIf *ssa.If
	for _, b := range us.Blocks {
		for _, in := range b.Instrs {
			bo, ok := in.(*ssa.BinOp)
			if !ok || bo.Op != token.GTR {
				continue
			}
			if !strings.HasSuffix(describe(bo.X), "txn.Value") {
				continue
			}
			if _, isK := bo.Y.(*ssa.Const); !isK {
				if cv, ok := bo.Y.(*ssa.Convert); !ok || func() bool { _, k := cv.X.(*ssa.Const); return !k }() {
					continue
				}
			}
			for _, ref := range *bo.Referrers() {
				if ifi, ok := ref.(*ssa.If); ok && core.FailsOnly(ifi.Block().Succs[0], map[*ssa.BasicBlock]bool{}) {
					found = true
					guardIf = ifi
				}
			}
		}
	}
	r.Check(found, "C05.supply-guard", "updateState:value<=supply", p.Pos(us.Pos()), "txn.Value > MaxTokenSupply must be rejected")
	if guardIf != nil {
		for _, c := range findCalls(us, pkgChain+".CreateTxnMPT") {
			if c.Block().Dominates(guardIf.Block()) && c.Block() != guardIf.Block() {
				r.Fail("C05.supply-guard", "updateState:guard-first", p.Pos(c.Pos()), "transaction context created before the supply guard")
			}
		}
		vn := findCalls(us, "(*"+pkgChain+".Chain).validateNonce")
		r.Check(len(vn) == 1 && guardIf.Block().Dominates(vn[0].Block()), "C05.supply-guard", "updateState:guard-before-nonce", p.Pos(guardIf.Pos()), "the supply guard precedes the nonce check and everything after it")
	}
	// raw arithmetic
	var scope []*ssa.Function
	for _, fn := range p.ModFuncs() {
		if fn.Pkg == nil {
			continue
		}
		pp := fn.Pkg.Pkg.Path()
		if pp == pkgState || pp == "0chain.net/chaincore/tokenpool" || pp == pkgCState {
			scope = append(scope, fn)
		}
		if pp == pkgChain && strings.HasSuffix(p.Pos(fn.Pos()), "") && strings.Contains(p.Pos(fn.Pos()), "chaincore/chain/state.go") {
			scope = append(scope, fn)
		}
	}
	r.Floor("C05.raw-arith", "functions in scope", len(scope), 40)
	ops := RawCoinArith(scope)
	for _, o := range ops {
		key := "raw:" + core.EnclosingNamed(o.Fn).String() + ":" + o.Op.Op.String()
		switch {
		case onlyComparedOrLogged(o.Op, 0):
			r.Pass("C05.raw-arith", key, posOf(p, o.Op), "comparison/log operand only: "+describe(o.Op.X)+o.Op.Op.String()+describe(o.Op.Y))
		case isTooling(p, o.Fn):
			r.Pass("C05.raw-arith", key+":unreachable", posOf(p, o.Op), "function unreachable from the node binaries")
		case o.Op.Op == token.SUB && subGuarded(o.Op):
			r.Pass("C05.raw-arith", key+":guarded", posOf(p, o.Op), "subtraction dominated by a comparison establishing subtrahend <= minuend")
		default:
			r.Fail("C05.raw-arith", key, posOf(p, o.Op), fmt.Sprintf("unchecked Coin arithmetic %s %s %s feeds a stored or transferred value (may wrap)", describe(o.Op.X), o.Op.Op, describe(o.Op.Y)))
		}
	}
	r.Info["raw_coin_ops_in_scope"] = len(ops)
	if len(ops) == 0 {
		r.Pass("C05.raw-arith", "none", "", "no raw Coin arithmetic in scope")
	}
}

// c05ReadYourWrites: the per-transaction client-state cache is write-through.
func c05ReadYourWrites(r *core.Report, p *core.Prog) {
	recv := "(*" + pkgCState + ".StateContext)."
	set, get := p.Func(recv+"SetClientState"), p.Func(recv+"GetClientState")
	cache := p.Field(pkgCState, "StateContext", "clientStates")
	if set == nil || get == nil || cache == nil {
		r.Unresolved("C05.read-your-writes", "StateContext.SetClientState/GetClientState/clientStates")
		return
	}
	// does `fn` refresh/drop cache[key] on every path, key being its parameter #ki and the value deriving from parameter #vi?
	var always func(fn *ssa.Function, ki, vi int, depth int) (bool, string)
	refreshes := func(fn *ssa.Function, in ssa.Instruction, key, val ssa.Value, depth int) bool {
		switch x := in.(type) {
		case *ssa.MapUpdate:
			if f, _ := loadOfAnyField(x.Map); f != cache || x.Key != key {
				return false
			}
			fs, leaves := FlowLoadsDeep(x.Value)
			_ = fs
			for _, l := range leaves {
				if l == val {
					return true
				}
			}
			return false
		case *ssa.Call:
			if core.CalleeName(x.Common()) == "builtin.delete" {
				f, _ := loadOfAnyField(x.Call.Args[0])
				return f == cache && x.Call.Args[1] == key
			}
			cal := x.Common().StaticCallee()
			if cal == nil || depth > 2 || cal.Blocks == nil || cal.Pkg == nil || cal.Pkg.Pkg.Path() != pkgCState {
				return false
			}
			ki, vi := -1, -1
			for i, a := range x.Call.Args {
				if a == key {
					ki = i
				}
				if a == val {
					vi = i
				}
			}
			if ki < 0 || vi < 0 {
				return false
			}
			ok, _ := always(cal, ki, vi, depth+1)
			return ok
		}
		return false
	}
	always = func(fn *ssa.Function, ki, vi int, depth int) (bool, string) {
		key, val := ssa.Value(fn.Params[ki]), ssa.Value(fn.Params[vi])
		for _, ret := range core.Returns(fn) {
			if ret.Block() == fn.Recover {
				continue
			}
			if fn.Signature.Results().Len() > 0 && core.ClassifyReturn(ret) < 0 {
				continue // failing exit
			}
			path, _, found := core.PathQuery{Fn: fn, Barrier: func(in ssa.Instruction) bool { return refreshes(fn, in, key, val, depth) }, EdgeOK: core.FeasibleEdge,
				Target: func(in ssa.Instruction) bool { return in == ssa.Instruction(ret) }}.Find()
			if found {
				return false, p.PathString(path)
			}
		}
		return true, ""
	}
	ok, why := always(set, 1, 2, 0)
	r.Check(ok, "C05.read-your-writes", "SetClientState:cache-refreshed", p.Pos(set.Pos()), "after the trie insert the cached copy of the client is replaced on every success path; a path that keeps the old copy: "+why)
	// GetClientState: a cached value is returned only under the comma-ok hit of a lookup with the requested id
	n := 0
	for _, b := range get.Blocks {
		for _, in := range b.Instrs {
			lk, ok := in.(*ssa.Lookup)
			if !ok {
				continue
			}
			if f, _ := loadOfAnyField(lk.X); f != cache {
				continue
			}
			n++
			r.Check(lk.Index == ssa.Value(get.Params[1]) && lk.CommaOk, "C05.read-your-writes", fmt.Sprintf("GetClientState:cache-lookup#%d", n), p.Pos(lk.Pos()), "the cached copy served is the one stored under the requested id, under a hit")
		}
	}
	r.Floor("C05.read-your-writes", "GetClientState returns served from the cache", n, 1)
}
