package core

import (
	"go/token"

	"golang.org/x/tools/go/ssa"
)

// ValueAliases returns v plus every load of a local variable (Alloc) that is known to
// yield v: v is stored to the variable and no other store intervenes before the load.
func ValueAliases(v ssa.Value) []ssa.Value {
	out := []ssa.Value{v}
	refs := v.Referrers()
	if refs == nil {
		return out
	}
	for _, r := range *refs {
		st, ok := r.(*ssa.Store)
		if !ok || st.Val != v {
			continue
		}
		al, ok := st.Addr.(*ssa.Alloc)
		if !ok {
			continue
		}
		for _, r2 := range *al.Referrers() {
			ld, ok := r2.(*ssa.UnOp)
			if !ok || ld.Op != token.MUL || ld.X != al {
				continue
			}
			if reaches(st, ld) && !storeBetween(al, st, ld) {
				out = append(out, ld)
			}
		}
	}
	return out
}

// NilBranch is a branch on the nil-ness of a value.
type NilBranch struct {
	If         *ssa.If
	NonNilSucc int // successor index taken when the value is non-nil
}

// NilBranches lists the branches that test v (or an alias of it) against nil.
func NilBranches(v ssa.Value) []NilBranch {
	var out []NilBranch
	for _, a := range ValueAliases(v) {
		refs := a.Referrers()
		if refs == nil {
			continue
		}
		for _, r := range *refs {
			b, ok := r.(*ssa.BinOp)
			if !ok || (b.Op != token.EQL && b.Op != token.NEQ) || !(IsNilConst(b.X) || IsNilConst(b.Y)) {
				continue
			}
			for _, r2 := range *b.Referrers() {
				if ifi, ok := r2.(*ssa.If); ok {
					idx := 0
					if b.Op == token.EQL {
						idx = 1
					}
					out = append(out, NilBranch{ifi, idx})
				}
			}
		}
	}
	return out
}

// ErrResult returns the error result value of a call (the call itself for a single
// error result, or its Extract), nil when the call has no error result or drops it.
func ErrResult(call *ssa.Call) ssa.Value {
	res := call.Call.Signature().Results()
	if res.Len() == 0 {
		return nil
	}
	if res.Len() == 1 {
		if isErrorType(res.At(0).Type()) {
			return call
		}
		return nil
	}
	for _, ref := range *call.Referrers() {
		if e, ok := ref.(*ssa.Extract); ok && isErrorType(e.Type()) {
			return e
		}
	}
	return nil
}

// ErrLeadsToFailure: the call's error is tested against nil and every path from the
// non-nil edge of every such test ends in a failure exit or a panic. False when the
// error is never tested (dropped) or a tested non-nil edge can reach a success exit.
func ErrLeadsToFailure(call *ssa.Call) bool {
	ev := ErrResult(call)
	if ev == nil {
		return false
	}
	brs := NilBranches(ev)
	tests := map[ssa.Instruction]bool{}
	for _, br := range brs {
		if !FailsOnly(br.If.Block().Succs[br.NonNilSucc], map[*ssa.BasicBlock]bool{}) {
			return false
		}
		tests[br.If] = true
	}
	aliases := ValueAliases(ev)
	propagates := func(ret *ssa.Return) bool {
		ei := ErrIndex(ret.Parent())
		if ei < 0 {
			return false
		}
		v := ret.Results[ei]
		if ld, ok := v.(*ssa.UnOp); ok {
			if al, ok := ld.X.(*ssa.Alloc); ok {
				if sv := LastStoreBefore(al, ld); sv != nil {
					v = sv
				}
			}
		}
		var has func(v ssa.Value, d int) bool
		has = func(v ssa.Value, d int) bool {
			for _, a := range aliases {
				if SameValue(v, a) {
					return true
				}
			}
			if ph, ok := v.(*ssa.Phi); ok && d < 4 {
				for _, e := range ph.Edges {
					if has(e, d+1) {
						return true
					}
				}
			}
			return false
		}
		return has(v, 0)
	}
	// No path from the call to an exit that neither fails nor hands the error on may
	// avoid every nil test of the error.
	_, _, found := PathQuery{Fn: call.Parent(), Start: call,
		Barrier: func(in ssa.Instruction) bool { return tests[in] },
		EdgeOK:  FeasibleEdge,
		Target: func(in ssa.Instruction) bool {
			ret, ok := in.(*ssa.Return)
			if !ok {
				return false
			}
			if ClassifyReturn(ret) == ExitFailure || propagates(ret) {
				return false
			}
			return true
		}}.Find()
	return !found
}

// FailsOnly: every path from b ends in a failure exit or a panic (no success exit).
func FailsOnly(b *ssa.BasicBlock, seen map[*ssa.BasicBlock]bool) bool {
	if seen[b] {
		return true
	}
	seen[b] = true
	for _, in := range b.Instrs {
		if c, ok := in.(*ssa.Call); ok && IsPanicCall(c.Common()) {
			return true
		}
	}
	last := b.Instrs[len(b.Instrs)-1]
	switch x := last.(type) {
	case *ssa.Return:
		return ClassifyReturn(x) == ExitFailure
	case *ssa.Panic:
		return true
	}
	if len(b.Succs) == 0 {
		return true
	}
	for _, s := range b.Succs {
		if !FailsOnly(s, seen) {
			return false
		}
	}
	return true
}

// IsPanicCall: logging calls that never return.
func IsPanicCall(c *ssa.CallCommon) bool {
	switch CalleeName(c) {
	case "(*go.uber.org/zap.Logger).Panic", "(*go.uber.org/zap.Logger).Fatal",
		"(*go.uber.org/zap.SugaredLogger).Panic", "(*go.uber.org/zap.SugaredLogger).Fatal",
		"(*go.uber.org/zap.SugaredLogger).Panicf", "(*go.uber.org/zap.SugaredLogger).Fatalf",
		"log.Fatal", "log.Panic", "log.Fatalf", "log.Panicf", "log.Fatalln", "log.Panicln", "os.Exit":
		return true
	}
	return false
}

// BlockPanics: the block contains a panic or a never-returning log call.
func BlockPanics(b *ssa.BasicBlock) bool {
	for _, in := range b.Instrs {
		if _, ok := in.(*ssa.Panic); ok {
			return true
		}
		if c, ok := in.(*ssa.Call); ok && IsPanicCall(c.Common()) {
			return true
		}
	}
	return false
}

// BaseObject strips loads, field and index addressing and conversions, returning the
// root value an access path starts from together with the dotted field path.
func BaseObject(v ssa.Value) (ssa.Value, string) {
	path := ""
	if b, ok := v.(*Bound); ok {
		root, p := BaseObject(b.V)
		if al, isA := root.(*ssa.Alloc); isA {
			// a by-value struct parameter spilled to a local cell
			if sv, ok := singleStore(al).(*ssa.Parameter); ok {
				root = sv
			}
		}
		if prm, isP := root.(*ssa.Parameter); isP {
			if a, ok := b.Bind[prm]; ok {
				r2, p2 := BaseObject(a)
				return r2, p2 + p
			}
		}
		// callee-local root: keep it bound so that it cannot be mistaken for a caller value
		if _, isC := root.(*ssa.Const); isC {
			return root, p
		}
		if _, isG := root.(*ssa.Global); isG {
			return root, p
		}
		return &Bound{V: root, Bind: b.Bind}, p
	}
	for {
		switch x := v.(type) {
		case *ssa.UnOp:
			if x.Op == token.MUL {
				if al, ok := x.X.(*ssa.Alloc); ok {
					// local variable: follow the single/last store if unique
					if sv := singleStore(al); sv != nil {
						v = sv
						continue
					}
					if sv := LastStoreBefore(al, x); sv != nil {
						v = sv
						continue
					}
					return al, path
				}
				v = x.X
				continue
			}
			return v, path
		case *ssa.FieldAddr:
			path = "." + fieldName(x.X.Type(), x.Field) + path
			v = x.X
		case *ssa.Field:
			path = "." + fieldName(x.X.Type(), x.Field) + path
			v = x.X
		case *ssa.IndexAddr:
			path = "[*]" + path
			v = x.X
		case *ssa.Index:
			path = "[*]" + path
			v = x.X
		case *ssa.ChangeType:
			v = x.X
		case *ssa.Convert:
			v = x.X
		case *ssa.MakeInterface:
			v = x.X
		case *ssa.ChangeInterface:
			v = x.X
		case *ssa.TypeAssert:
			v = x.X
		default:
			return v, path
		}
	}
}

// ResultValue returns the i-th returned value of ret, looking through the spill that
// go/ssa inserts for functions with deferred calls (`*res = v; rundefers; return *res`).
func ResultValue(ret *ssa.Return, i int) ssa.Value {
	v := ret.Results[i]
	if ld, ok := v.(*ssa.UnOp); ok && ld.Op == token.MUL {
		if al, ok := ld.X.(*ssa.Alloc); ok {
			if sv := LastStoreBefore(al, ld); sv != nil {
				return sv
			}
		}
	}
	return v
}

// ParamOf resolves v to a function parameter: v itself, or a load of the local variable
// a parameter was spilled to (parameters captured by closures live in memory and are
// never reassigned when their variable has a single store).
func ParamOf(v ssa.Value) *ssa.Parameter {
	switch x := v.(type) {
	case *ssa.Parameter:
		return x
	case *ssa.UnOp:
		if x.Op != token.MUL {
			return nil
		}
		if al, ok := x.X.(*ssa.Alloc); ok {
			if sv := singleStore(al); sv != nil {
				if p, ok := sv.(*ssa.Parameter); ok {
					return p
				}
			}
		}
	}
	return nil
}

// IsParam reports whether v is (a spill-load of) the given parameter.
func IsParam(v ssa.Value, prm *ssa.Parameter) bool { return prm != nil && ParamOf(v) == prm }
