package core

import "golang.org/x/tools/go/ssa"

// Loop is a natural loop: header plus the blocks of its body.
type Loop struct {
	Header *ssa.BasicBlock
	Body   map[*ssa.BasicBlock]bool
}

// Loops computes the natural loops of fn (one per header; back edges to the same
// header are merged).
func Loops(fn *ssa.Function) []*Loop {
	byHeader := map[*ssa.BasicBlock]*Loop{}
	var order []*ssa.BasicBlock
	for _, b := range fn.Blocks {
		for _, s := range b.Succs {
			if !s.Dominates(b) {
				continue
			}
			// back edge b -> s
			l := byHeader[s]
			if l == nil {
				l = &Loop{Header: s, Body: map[*ssa.BasicBlock]bool{s: true}}
				byHeader[s] = l
				order = append(order, s)
			}
			stack := []*ssa.BasicBlock{b}
			for len(stack) > 0 {
				x := stack[len(stack)-1]
				stack = stack[:len(stack)-1]
				if l.Body[x] {
					continue
				}
				l.Body[x] = true
				stack = append(stack, x.Preds...)
			}
		}
	}
	var out []*Loop
	for _, h := range order {
		out = append(out, byHeader[h])
	}
	return out
}

// LoopsContaining returns the loops whose body contains b.
func LoopsContaining(fn *ssa.Function, b *ssa.BasicBlock) []*Loop {
	var out []*Loop
	for _, l := range Loops(fn) {
		if l.Body[b] {
			out = append(out, l)
		}
	}
	return out
}
