package core

import "golang.org/x/tools/go/ssa"

// Loop is a natural loop: header plus the blocks of its body.
type Loop struct {
	Header *ssa.BasicBlock
	Body   map[*ssa.BasicBlock]bool
}

// Loops computes the natural loops of fn (one per header; back edges to the same
// header are merged).
func Loops(fn *ssa.Function) []*Loop {
	byHeader := map[*ssa.BasicBlock]*Loop{}
	var order []*ssa.BasicBlock
	for _, b := range fn.Blocks {
		for _, s := range b.Succs {
			if !s.Dominates(b) {
				continue
			}
			// back edge b -> s
			l := byHeader[s]
			if l == nil {
				l = &Loop{Header: s, Body: map[*ssa.BasicBlock]bool{s: true}}
				byHeader[s] = l
				order = append(order, s)
			}
			stack := []*ssa.BasicBlock{b}
			for len(stack) > 0 {
				x := stack[len(stack)-1]
				stack = stack[:len(stack)-1]
				if l.Body[x] {
					continue
				}
				l.Body[x] = true
				stack = append(stack, x.Preds...)
			}
		}
	}
	var out []*Loop
	for _, h := range order {
		out = append(out, byHeader[h])
	}
	return out
}

// LoopsContaining returns the loops whose body contains b.
func LoopsContaining(fn *ssa.Function, b *ssa.BasicBlock) []*Loop {
	var out []*Loop
	for _, l := range Loops(fn) {
		if l.Body[b] {
			out = append(out, l)
		}
	}
	return out
}

// Stutter is a definite non-termination witness: a back edge of a loop along which no
// loop-carried value changes and nothing with an effect happens, so that once the edge
// is taken the same iteration repeats forever.
type Stutter struct {
	Loop *Loop
	Back *ssa.BasicBlock   // predecessor of the header on the stuttering back edge
	Path []*ssa.BasicBlock // header … Back
}

var pureCallees = map[string]bool{
	"builtin.len": true, "builtin.cap": true, "builtin.min": true, "builtin.max": true,
	"bytes.Compare": true, "bytes.Equal": true, "strings.Compare": true, "strings.HasPrefix": true,
	"strings.HasSuffix": true, "strings.Contains": true, "sort.SearchInts": true,
}

func pureInstr(in ssa.Instruction) bool {
	switch x := in.(type) {
	case *ssa.BinOp, *ssa.Phi, *ssa.IndexAddr, *ssa.Index, *ssa.FieldAddr, *ssa.Field, *ssa.Slice, *ssa.Convert,
		*ssa.ChangeType, *ssa.If, *ssa.Jump, *ssa.DebugRef, *ssa.Extract, *ssa.Lookup, *ssa.MakeInterface, *ssa.ChangeInterface, *ssa.TypeAssert:
		return true
	case *ssa.UnOp:
		return x.Op.String() != "<-" // channel receive blocks / has an effect
	case *ssa.Call:
		return pureCallees[CalleeName(x.Common())]
	}
	return false
}

// StutterLoops finds stuttering iterations in fn: a simple path header → … → header
// inside a loop, consisting of pure instructions only, along which every loop-carried
// value (header phi) evaluates to itself (phis met on the way are resolved by the edge
// actually taken).
func StutterLoops(fn *ssa.Function) []Stutter {
	var out []Stutter
	pureBlock := func(b *ssa.BasicBlock) bool {
		for _, in := range b.Instrs {
			if !pureInstr(in) {
				return false
			}
		}
		return true
	}
	for _, l := range Loops(fn) {
		h := l.Header
		var phis []*ssa.Phi
		for _, in := range h.Instrs {
			if ph, ok := in.(*ssa.Phi); ok {
				phis = append(phis, ph)
			}
		}
		if len(phis) == 0 || !pureBlock(h) {
			continue // `for { select … }` worker loops carry no state and block somewhere
		}
		found := false
		var path []*ssa.BasicBlock
		onPath := map[*ssa.BasicBlock]int{} // block -> index in path
		var dfs func(b *ssa.BasicBlock, depth int)
		resolve := func(v ssa.Value) ssa.Value {
			for k := 0; k < 16; k++ {
				ph, ok := v.(*ssa.Phi)
				if !ok {
					return v
				}
				idx, on := onPath[ph.Block()]
				if !on || idx == 0 {
					return v // header phi or a phi outside the path
				}
				pred := path[idx-1]
				taken := -1
				for i, pr := range ph.Block().Preds {
					if pr == pred {
						taken = i
					}
				}
				if taken < 0 {
					return v
				}
				v = ph.Edges[taken]
			}
			return v
		}
		dfs = func(b *ssa.BasicBlock, depth int) {
			if found || depth > 24 {
				return
			}
			for i, s := range b.Succs {
				if found {
					return
				}
				if !FeasibleEdge(b, i) {
					continue
				}
				if s == h {
					// closing the cycle: evaluate the header phis on the edge from b
					bi := -1
					for k, pr := range h.Preds {
						if pr == b {
							bi = k
						}
					}
					if bi < 0 {
						continue
					}
					same := true
					for _, ph := range phis {
						if resolve(ph.Edges[bi]) != ssa.Value(ph) {
							same = false
						}
					}
					if same && !threeWayExhausted(append(append([]*ssa.BasicBlock{}, path...), h)) {
						found = true
						out = append(out, Stutter{l, b, append([]*ssa.BasicBlock{}, path...)})
					}
					continue
				}
				if !l.Body[s] || !pureBlock(s) {
					continue
				}
				if _, on := onPath[s]; on {
					continue
				}
				onPath[s] = len(path)
				path = append(path, s)
				dfs(s, depth+1)
				path = path[:len(path)-1]
				delete(onPath, s)
			}
		}
		path = []*ssa.BasicBlock{h}
		onPath[h] = 0
		dfs(h, 0)
	}
	return out
}

// threeWayExhausted reports an infeasible path: it takes the "not equal" edge of tests
// of one three-way comparison result (bytes.Compare, strings.Compare, cmp.Compare)
// against all of -1, 0 and 1 — those functions return nothing else.
func threeWayExhausted(path []*ssa.BasicBlock) bool {
	excluded := map[ssa.Value]map[int64]bool{}
	for i := 0; i+1 < len(path); i++ {
		b, next := path[i], path[i+1]
		ifi, ok := b.Instrs[len(b.Instrs)-1].(*ssa.If)
		if !ok {
			continue
		}
		bo, ok := ifi.Cond.(*ssa.BinOp)
		if !ok {
			continue
		}
		call, ok := bo.X.(*ssa.Call)
		k, isK := ConstInt(bo.Y)
		if !ok || !isK {
			continue
		}
		switch CalleeName(call.Common()) {
		case "bytes.Compare", "strings.Compare", "cmp.Compare":
		default:
			continue
		}
		neq := false
		if bo.Op.String() == "==" && b.Succs[1] == next && b.Succs[0] != next {
			neq = true
		}
		if bo.Op.String() == "!=" && b.Succs[0] == next && b.Succs[1] != next {
			neq = true
		}
		if neq {
			if excluded[call] == nil {
				excluded[call] = map[int64]bool{}
			}
			excluded[call][k] = true
		}
	}
	for _, ex := range excluded {
		if ex[-1] && ex[0] && ex[1] {
			return true
		}
	}
	return false
}
