package core

import (
	"encoding/json"
	"fmt"
	"os"
	"path/filepath"
	"sort"
	"strings"
	"time"
)

// Ob is one obligation: a rule applied to one construct of the source.
type Ob struct {
	Rule   string `json:"rule"`
	Key    string `json:"key"` // rule + construct, position independent
	Pos    string `json:"pos,omitempty"`
	OK     bool   `json:"ok"`
	Known  bool   `json:"known,omitempty"`
	Detail string `json:"detail,omitempty"`
}

// Report collects the obligations of one property check.
type Report struct {
	Property string
	Tier     string
	Level    string // "other" | "proof"
	Explain  string
	Assume   []string
	Trusted  []string
	Rules    map[string]string // rule id -> description
	Obs      []Ob
	Info     map[string]interface{}
	start    time.Time
	P        *Prog
	keys     map[string]int
}

func NewReport(p *Prog, property, tier string) *Report {
	return &Report{Property: property, Tier: tier, Level: "other", Rules: map[string]string{},
		Info: map[string]interface{}{}, start: time.Now(), P: p, keys: map[string]int{}}
}

// Rule registers a rule description (shown in evidence).
func (r *Report) Rule(id, desc string) { r.Rules[id] = desc }

func (r *Report) uniq(key string) string {
	r.keys[key]++
	if n := r.keys[key]; n > 1 {
		return fmt.Sprintf("%s#%d", key, n)
	}
	return key
}

// Pass records a discharged obligation.
func (r *Report) Pass(rule, construct, pos, detail string) {
	r.Obs = append(r.Obs, Ob{Rule: rule, Key: r.uniq(rule + " " + construct), Pos: pos, OK: true, Detail: detail})
}

// Fail records a violated obligation.
func (r *Report) Fail(rule, construct, pos, detail string) {
	r.Obs = append(r.Obs, Ob{Rule: rule, Key: r.uniq(rule + " " + construct), Pos: pos, OK: false, Detail: detail})
}

// Check records pass or fail.
func (r *Report) Check(ok bool, rule, construct, pos, detail string) bool {
	if ok {
		r.Pass(rule, construct, pos, detail)
	} else {
		r.Fail(rule, construct, pos, detail)
	}
	return ok
}

// Floor fails when an enumeration found fewer instances than the hand-confirmed floor:
// a rule that matches nothing passes vacuously forever.
func (r *Report) Floor(rule, what string, got, min int) {
	r.Check(got >= min, rule, "floor:"+what, "", fmt.Sprintf("instances=%d floor=%d", got, min))
}

// Unresolved records an anchor that could not be resolved (fail closed).
func (r *Report) Unresolved(rule, anchor string) {
	r.Fail(rule, "unresolved-anchor:"+anchor, "", "anchor not found in the type-checked program; the rule cannot be evaluated")
}

// KnownFinding is one entry of /verif/known_findings.json.
type KnownFinding struct {
	Property  string `json:"property"`
	Key       string `json:"key"`
	WhatFails string `json:"what_fails"`
	Witness   string `json:"witness,omitempty"`
}

type KnownFile struct {
	Findings []KnownFinding `json:"findings"`
	Fixed    []string       `json:"fixed"`
}

func VerifDir() string {
	if d := os.Getenv("ZV_VERIF"); d != "" {
		return d
	}
	return "/verif"
}

func LoadKnown() (*KnownFile, error) {
	b, err := os.ReadFile(filepath.Join(VerifDir(), "known_findings.json"))
	if err != nil {
		if os.IsNotExist(err) {
			return &KnownFile{}, nil
		}
		return nil, err
	}
	var k KnownFile
	if err := json.Unmarshal(b, &k); err != nil {
		return nil, fmt.Errorf("known_findings.json: %v", err)
	}
	return &k, nil
}

// Finish prints the verdict, writes evidence (and the replay file on violation) and
// returns the process exit code.
func (r *Report) Finish() int {
	known, err := LoadKnown()
	if err != nil {
		fmt.Println("ERROR", err)
		r.Fail("meta", "known_findings.json", "", err.Error())
		known = &KnownFile{}
	}
	kset := map[string]KnownFinding{}
	for _, k := range known.Findings {
		if k.Property == r.Property {
			kset[k.Key] = k
		}
	}
	var viol, knownHit []Ob
	discharged := 0
	for i := range r.Obs {
		o := &r.Obs[i]
		if o.OK {
			discharged++
			continue
		}
		if _, ok := kset[o.Key]; ok {
			o.Known = true
			knownHit = append(knownHit, *o)
			continue
		}
		viol = append(viol, *o)
	}
	sort.SliceStable(viol, func(i, j int) bool { return viol[i].Key < viol[j].Key })
	for _, o := range knownHit {
		fmt.Printf("KNOWN-FINDING: property=%s %s at %s — %s\n", r.Property, o.Key, o.Pos, kset[o.Key].WhatFails)
	}
	evDir := filepath.Join(VerifDir(), "evidence")
	_ = os.MkdirAll(evDir, 0o755)
	replay := filepath.Join(evDir, r.Property+".violation.txt")
	_ = os.Remove(replay)
	code := 0
	if len(viol) > 0 {
		code = 1
		var sb strings.Builder
		fmt.Fprintf(&sb, "property %s: %d violated obligation(s) (tier %s)\n\n", r.Property, len(viol), r.Tier)
		for _, o := range viol {
			fmt.Fprintf(&sb, "- key:    %s\n  rule:   %s — %s\n  at:     %s\n  detail: %s\n\n", o.Key, o.Rule, r.Rules[o.Rule], o.Pos, o.Detail)
		}
		_ = os.WriteFile(replay, []byte(sb.String()), 0o644)
		for _, o := range viol {
			fmt.Printf("  violated: %s at %s — %s\n", o.Key, o.Pos, o.Detail)
		}
		fmt.Printf("VIOLATION property=%s replay=%s\n", r.Property, replay)
	} else {
		fmt.Printf("OK property=%s obligations=%d discharged=%d known=%d\n", r.Property, len(r.Obs), discharged, len(knownHit))
	}
	r.writeEvidence(discharged, len(knownHit), len(viol))
	return code
}

func (r *Report) writeEvidence(discharged, known, viol int) {
	type sample struct {
		Key    string `json:"key"`
		Pos    string `json:"pos,omitempty"`
		Status string `json:"status"`
		Detail string `json:"detail,omitempty"`
	}
	var samples []sample
	for _, o := range r.Obs {
		st := "discharged"
		if !o.OK {
			st = "violated"
			if o.Known {
				st = "known-finding"
			}
		}
		samples = append(samples, sample{o.Key, o.Pos, st, o.Detail})
	}
	const maxSamples = 400
	truncated := false
	if len(samples) > maxSamples {
		// keep all non-discharged plus the first discharged ones
		var keep []sample
		for _, s := range samples {
			if s.Status != "discharged" {
				keep = append(keep, s)
			}
		}
		for _, s := range samples {
			if len(keep) >= maxSamples {
				break
			}
			if s.Status == "discharged" {
				keep = append(keep, s)
			}
		}
		samples = keep
		truncated = true
	}
	perRule := map[string]int{}
	for _, o := range r.Obs {
		perRule[o.Rule]++
	}
	cov := map[string]interface{}{
		"explanation":            r.Explain,
		"rules":                  r.Rules,
		"obligations":            len(r.Obs),
		"discharged":             discharged,
		"known_findings":         known,
		"violated":               viol,
		"obligations_per_rule":   perRule,
		"samples":                samples,
		"samples_truncated":      truncated,
		"exhaustive":             true,
		"module_packages_loaded": 0,
		"functions_with_bodies":  0,
		"load_wall_s":            0.0,
	}
	if r.P != nil {
		cov["module_packages_loaded"] = len(r.P.ModPkgs)
		cov["functions_with_bodies"] = r.P.NFuncs
		cov["load_wall_s"] = r.P.LoadWall.Seconds()
		cov["repo_root"] = r.P.RepoRoot
	}
	for k, v := range r.Info {
		cov[k] = v
	}
	if r.Level == "proof" {
		// proof level: every obligation must be discharged (known findings are not).
		cov["checker_cmd"] = fmt.Sprintf("bin/zv check %s --tier %s", r.Property, r.Tier)
		cov["trusted_base"] = r.Trusted
	}
	seed := 0
	if s := os.Getenv("VERIF_SEED"); s != "" {
		fmt.Sscanf(s, "%d", &seed)
	}
	ev := map[string]interface{}{
		"property_id": r.Property,
		"tier":        r.Tier,
		"seed":        seed,
		"level":       r.Level,
		"coverage":    cov,
		"assumptions": append([]string{"static analysis is deterministic; the seed is recorded but unused"}, r.Assume...),
		"wall_s": time.Since(r.start).Seconds() + func() float64 {
			if r.P != nil {
				return r.P.LoadWall.Seconds()
			}
			return 0
		}(),
		"violations": viol,
	}
	b, _ := json.MarshalIndent(ev, "", " ")
	_ = os.WriteFile(filepath.Join(VerifDir(), "evidence", r.Property+".json"), b, 0o644)
}
