package core

import (
	"fmt"
	"go/constant"
	"go/token"
	"go/types"
	"sort"
	"strings"

	"golang.org/x/tools/go/ssa"
)

// ---------------------------------------------------------------------------------
// Callee resolution
// ---------------------------------------------------------------------------------

// CalleeName returns a stable qualified name for the callee of a call:
//   - static function or method:  fn.String(), e.g. "(*pkg.T).M" or "pkg.F"
//   - interface method invoke:    "(pkg.I).M"
//   - builtin:                    "builtin.len"
//   - dynamic (closure / func value): "" .
func CalleeName(c *ssa.CallCommon) string {
	if c.IsInvoke() {
		recv := c.Method.Type().(*types.Signature).Recv()
		if recv != nil {
			return "(" + types.TypeString(recv.Type(), nil) + ")." + c.Method.Name()
		}
		return c.Method.FullName()
	}
	switch v := c.Value.(type) {
	case *ssa.Function:
		return origin(v).String()
	case *ssa.Builtin:
		return "builtin." + v.Name()
	case *ssa.MakeClosure:
		if f, ok := v.Fn.(*ssa.Function); ok {
			return f.String()
		}
	}
	return ""
}

func origin(f *ssa.Function) *ssa.Function {
	if o := f.Origin(); o != nil {
		return o
	}
	return f
}

// StaticCallee returns the statically known callee (function, method or immediately
// applied closure) or nil.
func StaticCallee(c *ssa.CallCommon) *ssa.Function {
	if c.IsInvoke() {
		return nil
	}
	switch v := c.Value.(type) {
	case *ssa.Function:
		return v
	case *ssa.MakeClosure:
		if f, ok := v.Fn.(*ssa.Function); ok {
			return f
		}
	}
	return nil
}

// MethodName returns the bare method/function name of the callee ("" for dynamic).
func MethodName(c *ssa.CallCommon) string {
	if c.IsInvoke() {
		return c.Method.Name()
	}
	if f := StaticCallee(c); f != nil {
		return origin(f).Name() // instantiations of generics are named "F[T…]"
	}
	if b, ok := c.Value.(*ssa.Builtin); ok {
		return b.Name()
	}
	return ""
}

// DeepRoots describes what a value depends on, looking through calls of pure helper
// functions (conversions, math.*, strconv.*) into their arguments.
func DeepRoots(v ssa.Value) []string {
	set := map[string]bool{}
	seen := map[ssa.Value]bool{}
	var walk func(v ssa.Value, d int)
	walk = func(v ssa.Value, d int) {
		if v == nil || seen[v] || d > 10 {
			return
		}
		seen[v] = true
		switch x := v.(type) {
		case *ssa.Call:
			n := CalleeName(x.Common())
			set["call:"+n] = true
			if strings.HasPrefix(n, "math.") || strings.HasPrefix(n, "strconv.") || strings.HasPrefix(n, "builtin.") ||
				strings.HasPrefix(n, "(time.") || strings.HasPrefix(n, "time.") || n == "0chain.net/core/common.ToTime" {
				for _, a := range x.Call.Args {
					walk(a, d+1)
				}
			} else if h := x.Call.StaticCallee(); h != nil && PureValueHelper(h) {
				// an expression extracted into a helper of the module: a function of its arguments
				for _, a := range x.Call.Args {
					walk(a, d+1)
				}
			}
			return
		case *ssa.Extract:
			walk(x.Tuple, d+1)
			return
		case *ssa.UnOp:
			if ap := AccessPath(x); ap != "" {
				set["load:"+ap] = true
			}
			if al, ok := x.X.(*ssa.Alloc); ok {
				for _, s := range StoresTo(al) {
					walk(s, d+1)
				}
				return
			}
		case *ssa.Const:
			return
		}
		if in, ok := v.(ssa.Instruction); ok {
			for _, op := range in.Operands(nil) {
				if op != nil && *op != nil {
					walk(*op, d+1)
				}
			}
		}
	}
	walk(v, 0)
	var out []string
	for k := range set {
		out = append(out, k)
	}
	sort.Strings(out)
	return out
}

// CallArgs returns the arguments excluding the receiver for static method calls, so
// that static and invoke calls of the same method line up.
func CallArgs(c *ssa.CallCommon) []ssa.Value {
	if c.IsInvoke() {
		return c.Args
	}
	if f := StaticCallee(c); f != nil && f.Signature.Recv() != nil && len(c.Args) > 0 {
		return c.Args[1:]
	}
	return c.Args
}

// Receiver returns the receiver value of a method call (invoke or static), or nil.
func Receiver(c *ssa.CallCommon) ssa.Value {
	if c.IsInvoke() {
		return c.Value
	}
	if f := StaticCallee(c); f != nil && f.Signature.Recv() != nil && len(c.Args) > 0 {
		return c.Args[0]
	}
	return nil
}

// CallSite is one call instruction with its enclosing function.
type CallSite struct {
	Fn    *ssa.Function
	Instr ssa.CallInstruction
}

func (cs CallSite) Common() *ssa.CallCommon { return cs.Instr.Common() }
func (cs CallSite) Pos() token.Pos {
	if p := cs.Instr.Pos(); p.IsValid() {
		return p
	}
	return cs.Instr.Common().Pos()
}

// CallsIn lists the call sites in fn (optionally descending into its closures) whose
// callee satisfies pred.
func CallsIn(fn *ssa.Function, withClosures bool, pred func(c *ssa.CallCommon) bool) []CallSite {
	var out []CallSite
	var walk func(f *ssa.Function)
	walk = func(f *ssa.Function) {
		for _, b := range f.Blocks {
			for _, in := range b.Instrs {
				if ci, ok := in.(ssa.CallInstruction); ok {
					if pred == nil || pred(ci.Common()) {
						out = append(out, CallSite{f, ci})
					}
				}
			}
		}
		if withClosures {
			for _, a := range f.AnonFuncs {
				walk(a)
			}
		}
	}
	walk(fn)
	return out
}

// NameIs builds a predicate matching callee qualified names exactly.
func NameIs(names ...string) func(*ssa.CallCommon) bool {
	set := map[string]bool{}
	for _, n := range names {
		set[n] = true
	}
	return func(c *ssa.CallCommon) bool { return set[CalleeName(c)] }
}

// MethodIs matches calls by bare method name whose receiver's named type (after
// pointer stripping) or interface is one of the listed "pkgpath.Type" names. An empty
// types list matches any receiver.
func MethodIs(method string, recvTypes ...string) func(*ssa.CallCommon) bool {
	return func(c *ssa.CallCommon) bool {
		if MethodName(c) != method {
			return false
		}
		if len(recvTypes) == 0 {
			return true
		}
		rt := RecvTypeName(c)
		for _, t := range recvTypes {
			if rt == t {
				return true
			}
		}
		return false
	}
}

// RecvTypeName returns "pkgpath.Type" of the receiver of a method call, or "".
func RecvTypeName(c *ssa.CallCommon) string {
	var t types.Type
	if c.IsInvoke() {
		t = c.Value.Type()
	} else if f := StaticCallee(c); f != nil && f.Signature.Recv() != nil {
		t = f.Signature.Recv().Type()
	} else {
		return ""
	}
	return NamedName(t)
}

// NamedName returns "pkgpath.Name" for a (pointer to) named type, "" otherwise.
func NamedName(t types.Type) string {
	for {
		if p, ok := t.(*types.Pointer); ok {
			t = p.Elem()
			continue
		}
		break
	}
	if a, ok := t.(*types.Alias); ok {
		t = types.Unalias(a)
	}
	if n, ok := t.(*types.Named); ok {
		if n.Obj().Pkg() == nil {
			return n.Obj().Name()
		}
		return n.Obj().Pkg().Path() + "." + n.Obj().Name()
	}
	return ""
}

// ---------------------------------------------------------------------------------
// Dominating conditions ("facts")
// ---------------------------------------------------------------------------------

// Fact is a branch condition known to hold (Taken=true: cond is true) at some point.
type Fact struct {
	Cond  ssa.Value
	Taken bool
	If    *ssa.If
}

// edgeDominates reports whether CFG edge (d -> d.Succs[i]) dominates block b.
func edgeDominates(d *ssa.BasicBlock, i int, b *ssa.BasicBlock) bool {
	s := d.Succs[i]
	if d.Succs[0] == d.Succs[1] {
		return false
	}
	if !s.Dominates(b) {
		return false
	}
	for _, p := range s.Preds {
		if p == d {
			continue
		}
		if !s.Dominates(p) { // another way into s that does not come through s itself
			return false
		}
	}
	return true
}

// FactsAt returns the branch conditions that hold on every path to block b, including
// what error-checked / boolean guard helpers of the module establish (as Bound values).
func FactsAt(b *ssa.BasicBlock) []Fact {
	return factsAtDepth(b, 0)
}

func factsAtDepth(b *ssa.BasicBlock, depth int) []Fact {
	var out []Fact
	for d := b.Idom(); d != nil; d = d.Idom() {
		out = appendFactsOf(out, d, b)
	}
	if depth > 1 {
		return out
	}
	// facts imported from guard helpers
	var imp []Fact
	for _, f := range out {
		cv, taken := normCond(f.Cond, f.Taken)
		// boolean helper: `if helper(args) {`
		if c, ok := cv.(*ssa.Call); ok {
			outcome := "false"
			if taken {
				outcome = "true"
			}
			imp = append(imp, importedFacts(c, outcome, depth)...)
			continue
		}
		// error helper: `if err := helper(args); err != nil { return }` — on the nil side
		if x, isNil, ok := NilFact(Fact{cv, taken, f.If}); ok && isNil {
			var call *ssa.Call
			switch y := x.(type) {
			case *ssa.Call:
				call = y
			case *ssa.Extract:
				call, _ = y.Tuple.(*ssa.Call)
			}
			if call != nil && isErrorType(x.Type()) {
				imp = append(imp, importedFacts(call, "nil", depth)...)
			}
		}
	}
	return append(out, imp...)
}

func appendFactsOf(out []Fact, d, b *ssa.BasicBlock) []Fact {
	if len(d.Instrs) == 0 {
		return out
	}
	ifi, ok := d.Instrs[len(d.Instrs)-1].(*ssa.If)
	if !ok {
		return out
	}
	if edgeDominates(d, 0, b) {
		out = append(out, Fact{ifi.Cond, true, ifi})
		out = appendShortCircuitFacts(out, ifi, true, 0)
	} else if edgeDominates(d, 1, b) {
		out = append(out, Fact{ifi.Cond, false, ifi})
		out = appendShortCircuitFacts(out, ifi, false, 0)
	}
	return out
}

// appendShortCircuitFacts: `x || y` / `x && y` used as a value (a switch case, an
// assignment) is lowered to a phi of a constant and the right operand. When the phi is
// known to be `taken` and only one incoming edge can carry that value, the path came
// through that edge: the operand it carries has that value and whatever holds at the
// end of that predecessor (the left operand's outcome) holds too.
func appendShortCircuitFacts(out []Fact, ifi *ssa.If, taken bool, depth int) []Fact {
	cond, pol := normCond(ifi.Cond, taken)
	ph, ok := cond.(*ssa.Phi)
	if !ok || depth > 3 {
		return out
	}
	var cand []int
	for i, e := range ph.Edges {
		if c, isC := e.(*ssa.Const); isC && c.Value != nil && c.Value.Kind() == constant.Bool {
			if constant.BoolVal(c.Value) != pol {
				continue // this edge cannot produce the known value
			}
		}
		cand = append(cand, i)
	}
	if len(cand) != 1 {
		return out
	}
	i := cand[0]
	pred := ph.Block().Preds[i]
	if _, isC := ph.Edges[i].(*ssa.Const); !isC {
		out = append(out, Fact{ph.Edges[i], pol, ifi})
	}
	// facts at the end of that predecessor
	for d := pred; d != nil; d = d.Idom() {
		if d != pred {
			out = appendFactsOf(out, d, pred)
		}
	}
	return out
}

// FactsAtInstr returns facts holding at an instruction (same as its block).
func FactsAtInstr(in ssa.Instruction) []Fact { return FactsAt(in.Block()) }

// Unparen strips unary NOT, flipping polarity.
func normCond(v ssa.Value, taken bool) (ssa.Value, bool) {
	for {
		if b, ok := v.(*Bound); ok {
			if u, ok := b.V.(*ssa.UnOp); ok && u.Op == token.NOT {
				v, taken = bindValue(u.X, b.Bind), !taken
				continue
			}
			return v, taken
		}
		if u, ok := v.(*ssa.UnOp); ok && u.Op == token.NOT {
			v, taken = u.X, !taken
			continue
		}
		// a boolean kept in a local cell (a named result spilled because of a defer,
		// `if set = a > b; set {…}`): the condition is the value last stored before the load
		if u, ok := v.(*ssa.UnOp); ok && u.Op == token.MUL {
			if al, isA := u.X.(*ssa.Alloc); isA && !al.Heap {
				if sv := LastStoreBefore(al, u); sv != nil && sv != v {
					if _, isBool := sv.Type().Underlying().(*types.Basic); isBool {
						v = sv
						continue
					}
				}
			}
		}
		return v, taken
	}
}

// IsNilConst reports whether v is the nil constant.
func IsNilConst(v ssa.Value) bool {
	c, ok := v.(*ssa.Const)
	return ok && c.Value == nil
}

// NilFact: if fact says "x == nil" or "x != nil" returns (x, isNil, true).
func NilFact(f Fact) (x ssa.Value, isNil bool, ok bool) {
	v, taken := normCond(f.Cond, f.Taken)
	inner, bind := Unbind(v)
	b, isb := inner.(*ssa.BinOp)
	if !isb || (b.Op != token.EQL && b.Op != token.NEQ) {
		return nil, false, false
	}
	var other ssa.Value
	switch {
	case IsNilConst(b.Y):
		other = b.X
	case IsNilConst(b.X):
		other = b.Y
	default:
		return nil, false, false
	}
	if bind != nil {
		other = bindValue(other, bind)
	}
	eq := b.Op == token.EQL
	return other, eq == taken, true
}

// KnownNil reports whether facts establish v == nil (1), v != nil (-1) or nothing (0).
// Besides direct nil tests it understands (a) aliases through spilled local variables
// and (b) validity predicates: a call ok(err) to a function that returns true whenever
// its argument is nil — on the false edge the argument is non-nil (`if !isValid(err)`).
func KnownNil(facts []Fact, v ssa.Value) int {
	same := func(x ssa.Value) bool {
		if SameValue(x, v) {
			return true
		}
		for _, a := range ValueAliases(v) {
			if SameValue(a, x) {
				return true
			}
		}
		for _, a := range ValueAliases(x) {
			if SameValue(a, v) {
				return true
			}
		}
		return false
	}
	for _, f := range facts {
		if x, isNil, ok := NilFact(f); ok && same(x) {
			if isNil {
				return 1
			}
			return -1
		}
		cv, taken := normCond(f.Cond, f.Taken)
		if call, ok := cv.(*ssa.Call); ok && !taken {
			if fn := StaticCallee(call.Common()); fn != nil && len(call.Call.Args) == 1 && same(call.Call.Args[0]) && nilImpliesTrue(fn) {
				return -1
			}
		}
	}
	return 0
}

var nilImpliesTrueCache = map[*ssa.Function]bool{}

// nilImpliesTrue: fn(x) bool returns the constant true on every path where x == nil,
// i.e. every return of a non-true value is dominated by x != nil.
func nilImpliesTrue(fn *ssa.Function) bool {
	if v, ok := nilImpliesTrueCache[fn]; ok {
		return v
	}
	res := false
	defer func() { nilImpliesTrueCache[fn] = res }()
	if fn.Blocks == nil || len(fn.Params) != 1 || fn.Signature.Results().Len() != 1 {
		return false
	}
	if b, ok := fn.Signature.Results().At(0).Type().Underlying().(*types.Basic); !ok || b.Kind() != types.Bool {
		return false
	}
	prm := fn.Params[0]
	for _, r := range Returns(fn) {
		if c, ok := r.Results[0].(*ssa.Const); ok && c.Value != nil && c.Value.Kind() == constant.Bool && constant.BoolVal(c.Value) {
			continue
		}
		nonNil := false
		for _, f := range FactsAt(r.Block()) {
			if x, isNil, ok := NilFact(f); ok && x == ssa.Value(prm) && !isNil {
				nonNil = true
			}
		}
		if !nonNil {
			return false
		}
	}
	res = true
	return true
}

// SameValue: identical SSA value, the same Extract index of the same tuple, or two
// loads of the same local variable (Alloc) with no store to it on any path between the
// two loads (variables captured by a deferred closure are spilled to memory by go/ssa).
func SameValue(a, b ssa.Value) bool {
	if a == b {
		return true
	}
	ea, ok1 := a.(*ssa.Extract)
	eb, ok2 := b.(*ssa.Extract)
	if ok1 && ok2 && ea.Tuple == eb.Tuple && ea.Index == eb.Index {
		return true
	}
	la, ok1 := a.(*ssa.UnOp)
	lb, ok2 := b.(*ssa.UnOp)
	if ok1 && ok2 && la.Op == token.MUL && lb.Op == token.MUL && la.X == lb.X {
		if al, ok := la.X.(*ssa.Alloc); ok {
			return !storeBetween(al, la, lb) && !storeBetween(al, lb, la)
		}
	}
	return false
}

// storeBetween reports whether some store to alloc can execute after `from` and before
// `to` (both in the same function).
func storeBetween(al *ssa.Alloc, from, to ssa.Instruction) bool {
	if !reaches(from, to) {
		return false
	}
	for _, r := range *al.Referrers() {
		st, ok := r.(*ssa.Store)
		if !ok || st.Addr != al {
			continue
		}
		if reaches(from, st) && reaches(st, to) {
			return true
		}
	}
	return false
}

func instrIndex(in ssa.Instruction) int {
	for i, x := range in.Block().Instrs {
		if x == in {
			return i
		}
	}
	return -1
}

// reaches: can control flow from instruction a (after it executes) reach instruction b?
func reaches(a, b ssa.Instruction) bool {
	if a.Block() == b.Block() && instrIndex(a) < instrIndex(b) {
		return true
	}
	seen := map[*ssa.BasicBlock]bool{}
	stack := append([]*ssa.BasicBlock{}, a.Block().Succs...)
	for len(stack) > 0 {
		x := stack[len(stack)-1]
		stack = stack[:len(stack)-1]
		if seen[x] {
			continue
		}
		seen[x] = true
		if x == b.Block() {
			return true
		}
		stack = append(stack, x.Succs...)
	}
	return false
}

// Reaches is the exported form of reaches.
func Reaches(a, b ssa.Instruction) bool { return reaches(a, b) }

// LastStoreBefore returns the value most recently stored to alloc before instruction
// `at`, searching backwards through `at`'s block and then through single-predecessor
// chains; nil when not unique.
func LastStoreBefore(al *ssa.Alloc, at ssa.Instruction) ssa.Value {
	b := at.Block()
	idx := instrIndex(at)
	for depth := 0; depth < 8 && b != nil; depth++ {
		for i := idx - 1; i >= 0; i-- {
			if st, ok := b.Instrs[i].(*ssa.Store); ok && st.Addr == al {
				return st.Val
			}
		}
		if len(b.Preds) != 1 {
			return nil
		}
		b = b.Preds[0]
		idx = len(b.Instrs)
	}
	return nil
}

// CallOf returns the call instruction producing v (directly or via Extract), with the
// extracted result index (-1 when v is the whole call value).
func CallOf(v ssa.Value) (*ssa.Call, int) {
	switch x := v.(type) {
	case *ssa.Call:
		return x, -1
	case *ssa.Extract:
		if c, ok := x.Tuple.(*ssa.Call); ok {
			return c, x.Index
		}
	}
	return nil, -1
}

// ---------------------------------------------------------------------------------
// Returns and success exits
// ---------------------------------------------------------------------------------

// ErrIndex returns the index of the last result of type error, or -1.
func ErrIndex(fn *ssa.Function) int {
	res := fn.Signature.Results()
	for i := res.Len() - 1; i >= 0; i-- {
		if isErrorType(res.At(i).Type()) {
			return i
		}
	}
	return -1
}

func isErrorType(t types.Type) bool {
	n, ok := t.(*types.Named)
	return ok && n.Obj().Pkg() == nil && n.Obj().Name() == "error"
}

// IsErrorType is exported for props.
func IsErrorType(t types.Type) bool { return isErrorType(t) }

// Returns lists the return instructions of fn.
func Returns(fn *ssa.Function) []*ssa.Return {
	var out []*ssa.Return
	for _, b := range fn.Blocks {
		if len(b.Instrs) == 0 {
			continue
		}
		if r, ok := b.Instrs[len(b.Instrs)-1].(*ssa.Return); ok {
			out = append(out, r)
		}
	}
	return out
}

// Exit kinds.
const (
	ExitSuccess = 1  // error result is certainly nil
	ExitFailure = -1 // error result is certainly non-nil
	ExitMaybe   = 0
)

// ClassifyReturn decides whether a return is a success exit (nil error), a failure
// exit, or undetermined. Functions without an error result: every return is success.
func ClassifyReturn(r *ssa.Return) int {
	fn := r.Parent()
	ei := ErrIndex(fn)
	if ei < 0 {
		return ExitSuccess
	}
	return classifyErrValue(r.Results[ei], r.Block(), 0)
}

func classifyErrValue(v ssa.Value, at *ssa.BasicBlock, depth int) int {
	if IsNilConst(v) {
		return ExitSuccess
	}
	switch x := v.(type) {
	case *ssa.UnOp:
		// defer-spilled named result: `return a, b` stores into the result variable and
		// the Return loads it back after running the deferred calls.
		if al, ok := x.X.(*ssa.Alloc); ok && x.Op == token.MUL && depth < 3 {
			if sv := LastStoreBefore(al, x); sv != nil {
				return classifyErrValue(sv, x.Block(), depth+1)
			}
		}
		// load of a package-level sentinel error (initialised once, non-nil, never reassigned)
		if g, ok := x.X.(*ssa.Global); ok && x.Op == token.MUL && IsSentinelErr(g) {
			return ExitFailure
		}
	case *ssa.MakeInterface:
		return ExitFailure // a concrete value boxed into error is non-nil (typed-nil aside)
	case *ssa.Call:
		if isErrorCtor(x.Common()) {
			return ExitFailure
		}
		// github.com/pkg/errors.Wrap* return nil exactly when their argument is nil
		switch CalleeName(x.Common()) {
		case "github.com/pkg/errors.Wrap", "github.com/pkg/errors.Wrapf", "github.com/pkg/errors.WithMessage",
			"github.com/pkg/errors.WithMessagef", "github.com/pkg/errors.WithStack":
			if depth < 3 && len(x.Call.Args) > 0 {
				return classifyErrValue(x.Call.Args[0], x.Block(), depth+1)
			}
		}
	case *ssa.Phi:
		if depth > 3 {
			return ExitMaybe
		}
		// all edges must agree
		res := 2
		for i, e := range x.Edges {
			pred := x.Block().Preds[i]
			k := classifyErrValue(e, pred, depth+1)
			if res == 2 {
				res = k
			} else if res != k {
				res = ExitMaybe
			}
		}
		if res == ExitSuccess || res == ExitFailure {
			return res
		}
		// undetermined by the edges: a dominating nil test of the merged value may still decide
	}
	facts := FactsAt(at)
	// the block itself may end the fact chain: include conditions of at's own dominators only.
	switch KnownNil(facts, v) {
	case 1:
		return ExitSuccess
	case -1:
		return ExitFailure
	}
	return ExitMaybe
}

var errorCtors = map[string]bool{
	"errors.New":                   true,
	"github.com/pkg/errors.New":    true,
	"github.com/pkg/errors.Errorf": true,
	"fmt.Errorf":                   true,
	"github.com/0chain/common/core/common.NewError":  true,
	"github.com/0chain/common/core/common.NewErrorf": true,
	"0chain.net/core/common.NewError":                true,
	"0chain.net/core/common.NewErrorf":               true,
	"0chain.net/core/common.NewErrInternal":          true,
	"0chain.net/core/common.NewErrBadRequest":        true,
	"0chain.net/core/common.NewErrNoResource":        true,
	"0chain.net/core/common.InvalidRequest":          true,
}

func isErrorCtor(c *ssa.CallCommon) bool { return errorCtors[CalleeName(c)] }

// SuccessExits returns returns that are success or undetermined (i.e. may commit).
func SuccessExits(fn *ssa.Function) []*ssa.Return {
	var out []*ssa.Return
	for _, r := range Returns(fn) {
		if ClassifyReturn(r) != ExitFailure {
			out = append(out, r)
		}
	}
	return out
}

// ---------------------------------------------------------------------------------
// Path search at instruction granularity
// ---------------------------------------------------------------------------------

// PathQuery searches for a CFG path inside one function.
type PathQuery struct {
	Fn *ssa.Function
	// Start: nil = function entry; otherwise the search starts right after this instr.
	Start ssa.Instruction
	// Barrier: instructions the path must not cross (e.g. the required call). May be nil.
	Barrier func(ssa.Instruction) bool
	// EdgeOK: optional filter on CFG edges (from block, successor index); false prunes.
	EdgeOK func(from *ssa.BasicBlock, succIdx int) bool
	// Target: instructions to reach.
	Target func(ssa.Instruction) bool
}

// Find returns a witness (list of blocks) for a path from Start to a Target that
// crosses no Barrier, and the target reached; ok=false when no such path exists.
func (q PathQuery) Find() (path []*ssa.BasicBlock, hit ssa.Instruction, ok bool) {
	type node struct {
		b    *ssa.BasicBlock
		prev *node
	}
	scan := func(b *ssa.BasicBlock, from int) (ssa.Instruction, bool, bool) { // hit, found, blocked
		for i := from; i < len(b.Instrs); i++ {
			in := b.Instrs[i]
			if q.Target != nil && q.Target(in) {
				return in, true, false
			}
			if q.Barrier != nil && q.Barrier(in) {
				return nil, false, true
			}
		}
		return nil, false, false
	}
	var startB *ssa.BasicBlock
	startIdx := 0
	if q.Start != nil {
		startB = q.Start.Block()
		for i, in := range startB.Instrs {
			if in == q.Start {
				startIdx = i + 1
			}
		}
	} else {
		if len(q.Fn.Blocks) == 0 {
			return nil, nil, false
		}
		startB = q.Fn.Blocks[0]
	}
	root := &node{b: startB}
	mk := func(n *node) []*ssa.BasicBlock {
		var p []*ssa.BasicBlock
		for ; n != nil; n = n.prev {
			p = append([]*ssa.BasicBlock{n.b}, p...)
		}
		return p
	}
	if in, found, blocked := scan(startB, startIdx); found {
		return mk(root), in, true
	} else if blocked {
		return nil, nil, false
	}
	seen := map[*ssa.BasicBlock]bool{}
	// the start block may be re-entered from the top through a loop; allow visiting it.
	queue := []*node{root}
	for len(queue) > 0 {
		n := queue[0]
		queue = queue[1:]
		for i, s := range n.b.Succs {
			if q.EdgeOK != nil && !q.EdgeOK(n.b, i) {
				continue
			}
			if seen[s] {
				continue
			}
			seen[s] = true
			nn := &node{b: s, prev: n}
			in, found, blocked := scan(s, 0)
			if found {
				return mk(nn), in, true
			}
			if blocked {
				continue
			}
			queue = append(queue, nn)
		}
	}
	return nil, nil, false
}

// FeasibleEdge prunes edges that contradict a dominating fact about the same condition
// value (cheap path-sensitivity: `if err != nil {return}` ... `if err != nil {…}`).
func FeasibleEdge(from *ssa.BasicBlock, succIdx int) bool {
	ifi, ok := from.Instrs[len(from.Instrs)-1].(*ssa.If)
	if !ok {
		return true
	}
	want := succIdx == 0
	for _, f := range FactsAt(from) {
		if f.Cond == ifi.Cond && f.Taken != want {
			return false
		}
		// nil-ness of the same value
		if x1, n1, ok1 := NilFact(f); ok1 {
			if x2, n2, ok2 := NilFact(Fact{ifi.Cond, want, ifi}); ok2 && SameValue(x1, x2) && n1 != n2 {
				return false
			}
		}
	}
	return true
}

// FlagConsistentEdges refines FeasibleEdge for a search that ends at `target`: when the
// target is dominated by a fact about a boolean flag that is a phi of constants
// (`killed := false; if … { killed = true }; … if killed { target }`), edges entering the
// phi's block with the contradicting constant are pruned — the path that reaches the
// target took the other assignment.
func FlagConsistentEdges(target ssa.Instruction) func(from *ssa.BasicBlock, succIdx int) bool {
	type key struct {
		from, to *ssa.BasicBlock
	}
	bad := map[key]bool{}
	for _, f := range FactsAt(target.Block()) {
		v, want := f.Cond, f.Taken
		for {
			if u, ok := v.(*ssa.UnOp); ok && u.Op == token.NOT {
				v, want = u.X, !want
				continue
			}
			break
		}
		ph, ok := v.(*ssa.Phi)
		if !ok {
			continue
		}
		for j, e := range ph.Edges {
			c, isC := e.(*ssa.Const)
			if !isC || c.Value == nil || c.Value.Kind() != constant.Bool {
				continue
			}
			if constant.BoolVal(c.Value) != want {
				bad[key{ph.Block().Preds[j], ph.Block()}] = true
			}
		}
	}
	return func(from *ssa.BasicBlock, succIdx int) bool {
		if !FeasibleEdge(from, succIdx) {
			return false
		}
		return !bad[key{from, from.Succs[succIdx]}]
	}
}

// PathString renders a block path with source positions.
func (p *Prog) PathString(path []*ssa.BasicBlock) string {
	var parts []string
	for _, b := range path {
		pos := token.NoPos
		for _, in := range b.Instrs {
			if in.Pos().IsValid() {
				pos = in.Pos()
				break
			}
		}
		parts = append(parts, fmt.Sprintf("b%d(%s)", b.Index, shortPos(p.Pos(pos))))
	}
	return strings.Join(parts, " → ")
}

func shortPos(s string) string {
	if i := strings.LastIndex(s, "/"); i >= 0 {
		return s[i+1:]
	}
	return s
}

// ---------------------------------------------------------------------------------
// Value provenance (backward slice to roots)
// ---------------------------------------------------------------------------------

// Root is a leaf of a backward slice.
type Root struct {
	Kind string // param, const, global, call, fieldload, alloc, freevar, other
	Desc string // e.g. "param:t.ClientID", "call:pkg.F", "const:\"x\"", "global:pkg.V"
	V    ssa.Value
}

// AccessPath renders a value as a dotted access path from a parameter/free variable/
// global/call, e.g. "t.ClientID", "sc.ID", "call:GetMinter()", or "" if not a path.
func AccessPath(v ssa.Value) string {
	if b, ok := v.(*Bound); ok {
		root, path := BaseObject(b)
		if _, still := root.(*Bound); still {
			return ""
		}
		base := AccessPath(root)
		if base == "" {
			return ""
		}
		return base + path
	}
	switch x := v.(type) {
	case *ssa.Parameter:
		return x.Name()
	case *ssa.FreeVar:
		return x.Name()
	case *ssa.Global:
		return x.Pkg.Pkg.Name() + "." + x.Name()
	case *ssa.Const:
		if x.Value == nil {
			return "nil"
		}
		return x.Value.ExactString()
	case *ssa.UnOp:
		if x.Op == token.MUL {
			return AccessPath(x.X)
		}
	case *ssa.FieldAddr:
		base := AccessPath(x.X)
		if base == "" {
			return ""
		}
		return base + "." + fieldName(x.X.Type(), x.Field)
	case *ssa.Field:
		base := AccessPath(x.X)
		if base == "" {
			return ""
		}
		return base + "." + fieldName(x.X.Type(), x.Field)
	case *ssa.IndexAddr:
		base := AccessPath(x.X)
		if base == "" {
			return ""
		}
		return base + "[*]"
	case *ssa.Index:
		base := AccessPath(x.X)
		if base == "" {
			return ""
		}
		return base + "[*]"
	case *ssa.ChangeType:
		return AccessPath(x.X)
	case *ssa.Convert:
		return AccessPath(x.X)
	case *ssa.MakeInterface:
		return AccessPath(x.X)
	case *ssa.ChangeInterface:
		return AccessPath(x.X)
	case *ssa.TypeAssert:
		return AccessPath(x.X)
	case *ssa.Call:
		n := MethodName(x.Common())
		if n == "" {
			return ""
		}
		if r := Receiver(x.Common()); r != nil {
			if b := AccessPath(r); b != "" {
				return b + "." + n + "()"
			}
		}
		return "call:" + n + "()"
	case *ssa.Extract:
		if c, ok := x.Tuple.(*ssa.Call); ok {
			b := AccessPath(c)
			if b == "" {
				return ""
			}
			return fmt.Sprintf("%s#%d", b, x.Index)
		}
		if l, ok := x.Tuple.(*ssa.Lookup); ok && x.Index == 0 {
			return AccessPath(l)
		}
	case *ssa.Lookup:
		base := AccessPath(x.X)
		if base == "" {
			return ""
		}
		return base + "[*]"
	case *ssa.Alloc:
		// a local variable: try to find the single store into it
		if s := singleStore(x); s != nil {
			return AccessPath(s)
		}
		if x.Comment != "" {
			return "local:" + x.Comment
		}
	}
	return ""
}

func fieldName(t types.Type, idx int) string {
	if p, ok := t.Underlying().(*types.Pointer); ok {
		t = p.Elem()
	}
	if st, ok := t.Underlying().(*types.Struct); ok && idx < st.NumFields() {
		return st.Field(idx).Name()
	}
	return fmt.Sprintf("f%d", idx)
}

// FieldOf returns the *types.Var of the field addressed/read by v, or nil.
func FieldOf(v ssa.Value) *types.Var {
	var t types.Type
	var idx int
	switch x := v.(type) {
	case *ssa.FieldAddr:
		t, idx = x.X.Type(), x.Field
	case *ssa.Field:
		t, idx = x.X.Type(), x.Field
	default:
		return nil
	}
	if p, ok := t.Underlying().(*types.Pointer); ok {
		t = p.Elem()
	}
	if st, ok := t.Underlying().(*types.Struct); ok && idx < st.NumFields() {
		return st.Field(idx)
	}
	return nil
}

// singleStore returns the stored value when an Alloc has exactly one Store.
func singleStore(a *ssa.Alloc) ssa.Value {
	var val ssa.Value
	n := 0
	for _, r := range *a.Referrers() {
		if s, ok := r.(*ssa.Store); ok && s.Addr == a {
			val = s.Val
			n++
		}
	}
	if n == 1 {
		return val
	}
	return nil
}

// StoresTo returns all values stored to an Alloc.
func StoresTo(a *ssa.Alloc) []ssa.Value {
	var out []ssa.Value
	for _, r := range *a.Referrers() {
		if s, ok := r.(*ssa.Store); ok && s.Addr == a {
			out = append(out, s.Val)
		}
	}
	return out
}

// Slice computes the leaves of the backward data-dependence slice of v inside its
// function: through phis, conversions, arithmetic, loads of locals. Field loads, calls,
// params, globals and constants are leaves (field loads are rendered as access paths).
func Slice(v ssa.Value) []Root {
	var out []Root
	seen := map[ssa.Value]bool{}
	var walk func(v ssa.Value)
	add := func(kind, desc string, v ssa.Value) { out = append(out, Root{kind, desc, v}) }
	walk = func(v ssa.Value) {
		if v == nil || seen[v] {
			return
		}
		seen[v] = true
		switch x := v.(type) {
		case *ssa.Const:
			add("const", "const:"+AccessPath(x), x)
		case *ssa.Parameter:
			add("param", "param:"+x.Name(), x)
		case *ssa.FreeVar:
			add("freevar", "freevar:"+x.Name(), x)
		case *ssa.Global:
			add("global", "global:"+AccessPath(x), x)
		case *ssa.Phi:
			for _, e := range x.Edges {
				walk(e)
			}
		case *ssa.BinOp:
			walk(x.X)
			walk(x.Y)
		case *ssa.UnOp:
			if x.Op == token.MUL {
				// load
				switch a := x.X.(type) {
				case *ssa.Alloc:
					for _, s := range StoresTo(a) {
						walk(s)
					}
					if len(StoresTo(a)) == 0 {
						add("alloc", "alloc:"+a.Comment, a)
					}
					return
				case *ssa.FieldAddr, *ssa.IndexAddr:
					if ap := AccessPath(x); ap != "" {
						add("fieldload", "load:"+ap, x)
					} else {
						add("other", "load:?", x)
					}
					return
				case *ssa.Global:
					add("global", "global:"+AccessPath(a), a)
					return
				}
				walk(x.X)
				return
			}
			walk(x.X)
		case *ssa.Convert:
			walk(x.X)
		case *ssa.ChangeType:
			walk(x.X)
		case *ssa.MakeInterface:
			walk(x.X)
		case *ssa.ChangeInterface:
			walk(x.X)
		case *ssa.TypeAssert:
			walk(x.X)
		case *ssa.Field:
			if ap := AccessPath(x); ap != "" {
				add("fieldload", "load:"+ap, x)
			} else {
				walk(x.X)
			}
		case *ssa.Extract:
			if c, ok := x.Tuple.(*ssa.Call); ok {
				add("call", fmt.Sprintf("call:%s#%d", CalleeName(c.Common()), x.Index), x)
			} else {
				walk(x.Tuple)
			}
		case *ssa.Call:
			add("call", "call:"+CalleeName(x.Common()), x)
		case *ssa.Alloc:
			add("alloc", "alloc:"+x.Comment, x)
		case *ssa.Lookup:
			walk(x.X)
		case *ssa.Index:
			walk(x.X)
		case *ssa.Slice:
			walk(x.X)
		default:
			add("other", fmt.Sprintf("other:%T", v), v)
		}
	}
	walk(v)
	return out
}

// RootDescs returns sorted unique root descriptions.
func RootDescs(rs []Root) []string {
	set := map[string]bool{}
	for _, r := range rs {
		set[r.Desc] = true
	}
	var out []string
	for k := range set {
		out = append(out, k)
	}
	sort.Strings(out)
	return out
}

// ---------------------------------------------------------------------------------
// Field writers
// ---------------------------------------------------------------------------------

// FieldWrite is one store (or address escape) of a struct field.
type FieldWrite struct {
	Fn    *ssa.Function
	Instr ssa.Instruction
	Kind  string // "store", "escape"
	Val   ssa.Value
	Addr  *ssa.FieldAddr
}

// FieldWrites finds every SSA store to the given field across fns; address-taken
// escapes (&x.f passed to a call or stored) are reported with Kind "escape".
func FieldWrites(fns []*ssa.Function, field *types.Var) []FieldWrite {
	var out []FieldWrite
	for _, fn := range fns {
		for _, b := range fn.Blocks {
			for _, in := range b.Instrs {
				fa, ok := in.(*ssa.FieldAddr)
				if !ok || FieldOf(fa) != field {
					continue
				}
				for _, r := range *fa.Referrers() {
					switch u := r.(type) {
					case *ssa.Store:
						if u.Addr == fa {
							out = append(out, FieldWrite{fn, u, "store", u.Val, fa})
						} else {
							out = append(out, FieldWrite{fn, u, "escape", nil, fa})
						}
					case *ssa.UnOp: // load
					case *ssa.FieldAddr, *ssa.IndexAddr:
						// nested access handled by its own field
					case ssa.CallInstruction:
						out = append(out, FieldWrite{fn, u, "escape", nil, fa})
					case *ssa.DebugRef:
					default:
						if _, isv := r.(ssa.Value); isv {
							switch r.(type) {
							case *ssa.MakeInterface, *ssa.Phi, *ssa.MakeClosure, *ssa.Slice:
								out = append(out, FieldWrite{fn, r, "escape", nil, fa})
							}
						}
					}
				}
			}
		}
	}
	return out
}

// ConstInt returns the integer value of a constant.
func ConstInt(v ssa.Value) (int64, bool) {
	c, ok := v.(*ssa.Const)
	if !ok || c.Value == nil || c.Value.Kind() != constant.Int {
		return 0, false
	}
	return c.Int64(), true
}

// ConstString returns the string value of a constant.
func ConstString(v ssa.Value) (string, bool) {
	c, ok := v.(*ssa.Const)
	if !ok || c.Value == nil || c.Value.Kind() != constant.String {
		return "", false
	}
	return constant.StringVal(c.Value), true
}

// FuncKey is a position-independent name for an SSA function (closures get
// parent$N).
func FuncKey(f *ssa.Function) string { return f.String() }

// EnclosingNamed returns the outermost named function enclosing a closure.
func EnclosingNamed(f *ssa.Function) *ssa.Function {
	for f.Parent() != nil {
		f = f.Parent()
	}
	return f
}

var sentinelCache = map[*ssa.Global]bool{}

// IsSentinelErr: a package-level variable of an error type that is stored exactly once,
// in its package initialiser, with a value that is certainly non-nil.
func IsSentinelErr(g *ssa.Global) bool {
	if v, ok := sentinelCache[g]; ok {
		return v
	}
	res := false
	defer func() { sentinelCache[g] = res }()
	if g.Pkg == nil {
		return false
	}
	initFn := g.Pkg.Func("init")
	if initFn == nil {
		return false
	}
	nInit := 0
	for _, b := range initFn.Blocks {
		for _, in := range b.Instrs {
			st, ok := in.(*ssa.Store)
			if !ok || st.Addr != ssa.Value(g) {
				continue
			}
			nInit++
			switch v := st.Val.(type) {
			case *ssa.MakeInterface:
			case *ssa.Call:
				if !isErrorCtor(v.Common()) {
					return false
				}
			default:
				return false
			}
		}
	}
	if nInit != 1 {
		return false
	}
	// no other store anywhere in the package (unexported or not, cheap over-approximation:
	// scan the defining package and every first-party package that imports it is too
	// costly here; exported sentinels are conventionally never reassigned — scan defining
	// package only and require the name to start with "Err"/"err").
	for _, m := range g.Pkg.Members {
		fn, ok := m.(*ssa.Function)
		if !ok || fn == initFn {
			continue
		}
		if storesGlobal(fn, g) {
			return false
		}
	}
	res = true
	return true
}

func storesGlobal(fn *ssa.Function, g *ssa.Global) bool {
	for _, b := range fn.Blocks {
		for _, in := range b.Instrs {
			if st, ok := in.(*ssa.Store); ok && st.Addr == ssa.Value(g) {
				return true
			}
		}
	}
	for _, a := range fn.AnonFuncs {
		if storesGlobal(a, g) {
			return true
		}
	}
	return false
}

// PureValueHelper: a module function whose results are a function of its arguments only — no
// stores, map updates, sends, goroutines or defers, no loads of package-level variables, and
// every call inside is to math/strconv/builtin/time conversions or to another such helper.
func PureValueHelper(f *ssa.Function) bool { return pureValueHelper(f, 2) }

func pureValueHelper(f *ssa.Function, depth int) bool {
	if f == nil || f.Blocks == nil || f.Pkg == nil || !IsModule(f.Pkg.Pkg.Path()) || depth < 0 {
		return false
	}
	for _, b := range f.Blocks {
		for _, in := range b.Instrs {
			switch x := in.(type) {
			case *ssa.Store, *ssa.MapUpdate, *ssa.Send, *ssa.Go, *ssa.Defer, *ssa.Select, *ssa.Panic:
				return false
			case *ssa.UnOp:
				if x.Op == token.ARROW {
					return false
				}
				if x.Op == token.MUL {
					if _, isG := x.X.(*ssa.Global); isG {
						return false
					}
				}
			case *ssa.Call:
				n := CalleeName(x.Common())
				if strings.HasPrefix(n, "math.") || strings.HasPrefix(n, "strconv.") || strings.HasPrefix(n, "builtin.len") || strings.HasPrefix(n, "builtin.cap") ||
					strings.HasPrefix(n, "builtin.min") || strings.HasPrefix(n, "builtin.max") {
					continue
				}
				if h := x.Call.StaticCallee(); h != nil && h != f && pureValueHelper(h, depth-1) {
					continue
				}
				return false
			}
		}
	}
	return true
}
