// Package core holds the shared machinery of zv: loading /repo's current source,
// SSA construction, indices, and the obligation/report model.
package core

import (
	"fmt"
	"go/ast"
	"go/parser"
	"go/token"
	"go/types"
	"os"
	"path/filepath"
	"runtime/debug"
	"sort"
	"strings"
	"time"

	"golang.org/x/tools/go/callgraph"
	"golang.org/x/tools/go/callgraph/cha"
	"golang.org/x/tools/go/callgraph/vta"
	"golang.org/x/tools/go/packages"
	"golang.org/x/tools/go/ssa"
	"golang.org/x/tools/go/ssa/ssautil"
)

// Module path of the repository under analysis and of its first-party dependency.
const (
	ModPath    = "0chain.net"
	CommonPath = "github.com/0chain/common"
)

// Prog is the loaded, type-checked and SSA-built program.
type Prog struct {
	RepoRoot string // e.g. /repo
	ModDir   string // RepoRoot/code/go/0chain.net
	Fset     *token.FileSet
	Pkgs     map[string]*packages.Package // by import path (all, incl. deps)
	ModPkgs  []*packages.Package          // packages of module 0chain.net, sorted
	SSA      *ssa.Program
	SSAPkgs  map[string]*ssa.Package

	funcs map[string]*ssa.Function // qualified name -> function (module + common)
	// AllFuncs: every function with a body in module and common packages, including
	// anonymous closures.
	AllFuncs []*ssa.Function

	cg       *callgraph.Graph
	LoadWall time.Duration
	NFuncs   int
}

// RepoRootFromEnv returns the repository root: $ZV_REPO (used only by selftest on
// scratch copies) or /repo.
func RepoRootFromEnv() string {
	if r := os.Getenv("ZV_REPO"); r != "" {
		return r
	}
	return "/repo"
}

// Load type-checks the whole module from source and builds SSA with bodies for the
// module's packages and for github.com/0chain/common.
func Load(repoRoot string) (*Prog, error) {
	t0 := time.Now()
	debug.SetGCPercent(800) // plenty of memory; GC dominated the load time
	modDir := filepath.Join(repoRoot, "code", "go", "0chain.net")
	if _, err := os.Stat(filepath.Join(modDir, "go.mod")); err != nil {
		return nil, fmt.Errorf("module not found at %s: %v", modDir, err)
	}
	env := []string{}
	for _, e := range os.Environ() {
		if strings.HasPrefix(e, "GOWORK=") || strings.HasPrefix(e, "GOFLAGS=") ||
			strings.HasPrefix(e, "GOPROXY=") || strings.HasPrefix(e, "GOSUMDB=") ||
			strings.HasPrefix(e, "GOTOOLCHAIN=") {
			continue
		}
		env = append(env, e)
	}
	env = append(env, "GOWORK=off", "GOFLAGS=-mod=mod", "GOPROXY=off", "GOSUMDB=off", "GOTOOLCHAIN=local")
	fset := token.NewFileSet()
	cfg := &packages.Config{
		Mode:  packages.LoadAllSyntax,
		Dir:   modDir,
		Env:   env,
		Fset:  fset,
		Tests: false,
		// Function bodies of third-party dependencies are never analysed: drop them at
		// parse time so that type-checking the 500+ dependency packages stays cheap.
		ParseFile: func(fset *token.FileSet, filename string, src []byte) (*ast.File, error) {
			f, err := parser.ParseFile(fset, filename, src, parser.AllErrors|parser.ParseComments)
			if f != nil && !strings.HasPrefix(filename, modDir+string(filepath.Separator)) &&
				!strings.Contains(filename, "/github.com/0chain/common@") {
				for _, d := range f.Decls {
					if fd, ok := d.(*ast.FuncDecl); ok && fd.Body != nil {
						// `{ panic(0) }` type-checks for any signature (generic, init, results)
						lb, rb := fd.Body.Lbrace, fd.Body.Rbrace
						fd.Body = &ast.BlockStmt{Lbrace: lb, Rbrace: rb, List: []ast.Stmt{&ast.ExprStmt{X: &ast.CallExpr{
							Fun: &ast.Ident{NamePos: lb, Name: "panic"}, Lparen: lb, Rparen: rb,
							Args: []ast.Expr{&ast.BasicLit{ValuePos: lb, Kind: token.INT, Value: "0"}}}}}}
					}
				}
			}
			return f, err
		},
	}
	initial, err := packages.Load(cfg, "./...")
	if err != nil {
		return nil, fmt.Errorf("packages.Load: %v", err)
	}
	if os.Getenv("ZV_DEBUG") != "" {
		fmt.Fprintln(os.Stderr, "packages.Load", time.Since(t0))
	}
	if len(initial) == 0 {
		return nil, fmt.Errorf("no packages loaded from %s", modDir)
	}
	p := &Prog{RepoRoot: repoRoot, ModDir: modDir, Fset: fset,
		Pkgs: map[string]*packages.Package{}, SSAPkgs: map[string]*ssa.Package{},
		funcs: map[string]*ssa.Function{}}
	var errs []string
	packages.Visit(initial, nil, func(pk *packages.Package) {
		p.Pkgs[pk.PkgPath] = pk
		if pk.PkgPath == "github.com/linxGnu/grocksdb" {
			return // cgo names missing against the installed rocksdb; go/types recovers
		}
		for _, e := range pk.Errors {
			if !IsFirstParty(pk.PkgPath) && strings.Contains(e.Msg, "and not used") {
				continue // artefact of dropping third-party function bodies (ParseFile below)
			}
			errs = append(errs, pk.PkgPath+": "+e.Error())
		}
	})
	if len(errs) > 0 {
		sort.Strings(errs)
		if len(errs) > 20 {
			errs = errs[:20]
		}
		return nil, fmt.Errorf("type-check errors (tree not analysed):\n  %s", strings.Join(errs, "\n  "))
	}
	for _, pk := range initial {
		if pk.PkgPath == ModPath || strings.HasPrefix(pk.PkgPath, ModPath+"/") {
			p.ModPkgs = append(p.ModPkgs, pk)
		}
	}
	sort.Slice(p.ModPkgs, func(i, j int) bool { return p.ModPkgs[i].PkgPath < p.ModPkgs[j].PkgPath })
	if len(p.ModPkgs) < 60 {
		return nil, fmt.Errorf("only %d module packages loaded (expected >= 60)", len(p.ModPkgs))
	}

	// ssautil.AllPackages skips ill-typed packages, and every dependent of grocksdb is
	// transitively marked ill-typed although it has no errors of its own; create the
	// SSA packages by hand (grocksdb itself from its type information only).
	prog := ssa.NewProgram(fset, ssa.InstantiateGenerics)
	packages.Visit(initial, nil, func(pk *packages.Package) {
		if pk.Types == nil {
			return
		}
		if pk.PkgPath == "github.com/linxGnu/grocksdb" || pk.TypesInfo == nil {
			prog.CreatePackage(pk.Types, nil, nil, true)
			return
		}
		prog.CreatePackage(pk.Types, pk.Syntax, pk.TypesInfo, true)
	})
	p.SSA = prog
	if os.Getenv("ZV_DEBUG") != "" {
		fmt.Fprintln(os.Stderr, "ssa create", time.Since(t0))
	}
	for _, sp := range prog.AllPackages() {
		path := sp.Pkg.Path()
		p.SSAPkgs[path] = sp
		if IsFirstParty(path) {
			sp.Build()
		}
	}
	for _, sp := range prog.AllPackages() {
		if !IsFirstParty(sp.Pkg.Path()) {
			continue
		}
		for _, m := range sp.Members {
			switch m := m.(type) {
			case *ssa.Function:
				p.addFunc(m)
			case *ssa.Type:
				for _, T := range []types.Type{m.Type(), types.NewPointer(m.Type())} {
					ms := prog.MethodSets.MethodSet(T)
					for i := 0; i < ms.Len(); i++ {
						if f := prog.MethodValue(ms.At(i)); f != nil {
							p.addFunc(f)
						}
					}
				}
			}
		}
	}
	sort.Slice(p.AllFuncs, func(i, j int) bool { return p.AllFuncs[i].String() < p.AllFuncs[j].String() })
	p.NFuncs = len(p.AllFuncs)
	p.LoadWall = time.Since(t0)
	return p, nil
}

// IsFirstParty reports whether an import path belongs to the analysed module or to
// 0chain/common.
func IsFirstParty(path string) bool {
	return path == ModPath || strings.HasPrefix(path, ModPath+"/") ||
		path == CommonPath || strings.HasPrefix(path, CommonPath+"/")
}

// IsModule reports whether path belongs to the analysed module.
func IsModule(path string) bool {
	return path == ModPath || strings.HasPrefix(path, ModPath+"/")
}

func (p *Prog) addFunc(f *ssa.Function) {
	if f == nil || f.Blocks == nil || f.Synthetic != "" {
		return
	}
	if f.Pkg == nil || !IsFirstParty(f.Pkg.Pkg.Path()) {
		return
	}
	name := f.String()
	if _, ok := p.funcs[name]; ok {
		return
	}
	p.funcs[name] = f
	p.AllFuncs = append(p.AllFuncs, f)
	for _, a := range f.AnonFuncs {
		p.addAnon(a)
	}
}

func (p *Prog) addAnon(f *ssa.Function) {
	if f.Blocks == nil {
		return
	}
	p.funcs[f.String()] = f
	p.AllFuncs = append(p.AllFuncs, f)
	for _, a := range f.AnonFuncs {
		p.addAnon(a)
	}
}

// Func resolves a function by its SSA qualified name, e.g.
// "(*0chain.net/chaincore/chain.Chain).updateState" or
// "0chain.net/chaincore/chain.mintAmount". Returns nil when absent.
func (p *Prog) Func(name string) *ssa.Function { return p.funcs[name] }

// FuncsIn returns the functions (incl. closures) declared in a package.
func (p *Prog) FuncsIn(pkgPath string) []*ssa.Function {
	var out []*ssa.Function
	for _, f := range p.AllFuncs {
		if f.Pkg != nil && f.Pkg.Pkg.Path() == pkgPath {
			out = append(out, f)
		}
	}
	return out
}

// ModFuncs returns the functions of the analysed module only.
func (p *Prog) ModFuncs() []*ssa.Function {
	var out []*ssa.Function
	for _, f := range p.AllFuncs {
		if f.Pkg != nil && IsModule(f.Pkg.Pkg.Path()) {
			out = append(out, f)
		}
	}
	return out
}

// Type resolves a named type "pkgpath.Name".
func (p *Prog) Type(pkgPath, name string) *types.Named {
	pk := p.Pkgs[pkgPath]
	if pk == nil || pk.Types == nil {
		return nil
	}
	o := pk.Types.Scope().Lookup(name)
	if o == nil {
		return nil
	}
	tn, ok := o.(*types.TypeName)
	if !ok {
		return nil
	}
	n, _ := tn.Type().(*types.Named)
	return n
}

// Field resolves a struct field (possibly promoted through embedding is NOT followed:
// the field must be declared directly in the named struct).
func (p *Prog) Field(pkgPath, typeName, field string) *types.Var {
	n := p.Type(pkgPath, typeName)
	if n == nil {
		return nil
	}
	st, ok := n.Underlying().(*types.Struct)
	if !ok {
		return nil
	}
	for i := 0; i < st.NumFields(); i++ {
		if st.Field(i).Name() == field {
			return st.Field(i)
		}
	}
	return nil
}

// Object looks up a package-level object.
func (p *Prog) Object(pkgPath, name string) types.Object {
	pk := p.Pkgs[pkgPath]
	if pk == nil || pk.Types == nil {
		return nil
	}
	return pk.Types.Scope().Lookup(name)
}

// Pos renders a position relative to the repo root (or module cache).
func (p *Prog) Pos(pos token.Pos) string {
	if !pos.IsValid() {
		return "-"
	}
	ps := p.Fset.Position(pos)
	f := ps.Filename
	if rel, err := filepath.Rel(p.RepoRoot, f); err == nil && !strings.HasPrefix(rel, "..") {
		f = rel
	} else if i := strings.Index(f, "/pkg/mod/"); i >= 0 {
		f = f[i+len("/pkg/mod/"):]
	}
	return fmt.Sprintf("%s:%d", f, ps.Line)
}

// CallGraph builds (once) the VTA call graph seeded from CHA over all first-party
// functions.
func (p *Prog) CallGraph() *callgraph.Graph {
	if p.cg != nil {
		return p.cg
	}
	all := ssautil.AllFunctions(p.SSA)
	p.cg = vta.CallGraph(all, cha.CallGraph(p.SSA))
	return p.cg
}

// FileOf returns the syntax file containing pos among module packages.
func (p *Prog) FileOf(pos token.Pos) (*packages.Package, *ast.File) {
	for _, pk := range p.ModPkgs {
		for _, f := range pk.Syntax {
			if f.Pos() <= pos && pos <= f.End() {
				return pk, f
			}
		}
	}
	return nil, nil
}

// ReachableFrom returns the set of functions reachable in the VTA call graph from the
// given roots (closures created in a reachable function are included).
func (p *Prog) ReachableFrom(roots ...*ssa.Function) map[*ssa.Function]bool {
	cg := p.CallGraph()
	seen := map[*ssa.Function]bool{}
	var stack []*ssa.Function
	push := func(f *ssa.Function) {
		if f != nil && !seen[f] {
			seen[f] = true
			stack = append(stack, f)
		}
	}
	for _, r := range roots {
		push(r)
	}
	for len(stack) > 0 {
		f := stack[len(stack)-1]
		stack = stack[:len(stack)-1]
		if n := cg.Nodes[f]; n != nil {
			for _, e := range n.Out {
				push(e.Callee.Func)
			}
		}
		for _, a := range f.AnonFuncs {
			push(a)
		}
		// function values referenced (method values, funcs stored in tables)
		for _, b := range f.Blocks {
			for _, in := range b.Instrs {
				for _, op := range in.Operands(nil) {
					if op == nil || *op == nil {
						continue
					}
					switch v := (*op).(type) {
					case *ssa.Function:
						push(v)
					case *ssa.MakeClosure:
						if fn, ok := v.Fn.(*ssa.Function); ok {
							push(fn)
						}
					}
				}
			}
		}
	}
	return seen
}

// NodeRoots returns the entry points of the two node binaries (miner, sharder): their
// main functions and package initialisers of everything they import are approximated by
// main + every init function of module packages.
func (p *Prog) NodeRoots() []*ssa.Function {
	var roots []*ssa.Function
	for _, path := range []string{"0chain.net/miner/miner", "0chain.net/sharder/sharder"} {
		if sp := p.SSAPkgs[path]; sp != nil {
			if f := sp.Func("main"); f != nil {
				roots = append(roots, f)
			}
			if f := sp.Func("init"); f != nil {
				roots = append(roots, f)
			}
		}
	}
	return roots
}

var nodeReach map[*ssa.Function]bool

// NodeReachable: functions reachable from the miner or sharder binary (incl. the
// init functions of all packages those binaries import).
func (p *Prog) NodeReachable() map[*ssa.Function]bool {
	if nodeReach != nil {
		return nodeReach
	}
	roots := p.NodeRoots()
	// package initialisers of transitively imported module packages
	seenPk := map[string]bool{}
	var visit func(pk *packages.Package)
	visit = func(pk *packages.Package) {
		if pk == nil || seenPk[pk.PkgPath] {
			return
		}
		seenPk[pk.PkgPath] = true
		if IsFirstParty(pk.PkgPath) {
			if sp := p.SSAPkgs[pk.PkgPath]; sp != nil {
				if f := sp.Func("init"); f != nil {
					roots = append(roots, f)
				}
			}
		}
		for _, im := range pk.Imports {
			visit(im)
		}
	}
	visit(p.Pkgs["0chain.net/miner/miner"])
	visit(p.Pkgs["0chain.net/sharder/sharder"])
	nodeReach = p.ReachableFrom(roots...)
	return nodeReach
}

var nodePkgs map[string]bool

// NodePackages: import paths linked into the miner or sharder binary (transitive
// imports of their main packages). Code outside this set cannot run in a node.
func (p *Prog) NodePackages() map[string]bool {
	if nodePkgs != nil {
		return nodePkgs
	}
	nodePkgs = map[string]bool{}
	var visit func(pk *packages.Package)
	visit = func(pk *packages.Package) {
		if pk == nil || nodePkgs[pk.PkgPath] {
			return
		}
		nodePkgs[pk.PkgPath] = true
		for _, im := range pk.Imports {
			visit(im)
		}
	}
	visit(p.Pkgs["0chain.net/miner/miner"])
	visit(p.Pkgs["0chain.net/sharder/sharder"])
	return nodePkgs
}

// InNode reports whether fn's package is linked into a node binary.
func (p *Prog) InNode(fn *ssa.Function) bool {
	return fn.Pkg != nil && p.NodePackages()[fn.Pkg.Pkg.Path()]
}
