package core

import (
	"go/token"
	"go/types"

	"golang.org/x/tools/go/ssa"
)

// Bound is a value of a callee seen from a call site: V lives in the callee, Bind maps
// the callee's parameters to the arguments of that call. It lets facts established
// inside a guard helper (`if err := check(a, b); err != nil { return err }`) be imported
// at the call site: BaseObject / AccessPath resolve a Bound value through the binding, so
// rules that ask "which object and which field path is this?" see the caller's objects.
// Code that type-switches on concrete SSA value types simply does not match a Bound.
type Bound struct {
	V    ssa.Value
	Bind map[*ssa.Parameter]ssa.Value
}

var noRefs []ssa.Instruction

func (b *Bound) Name() string                  { return b.V.Name() }
func (b *Bound) String() string                { return "bound(" + b.V.String() + ")" }
func (b *Bound) Type() types.Type              { return b.V.Type() }
func (b *Bound) Parent() *ssa.Function         { return b.V.Parent() }
func (b *Bound) Referrers() *[]ssa.Instruction { return &noRefs }
func (b *Bound) Pos() token.Pos                { return b.V.Pos() }

// bind wraps v unless it needs no binding (constants, globals).
func bindValue(v ssa.Value, bind map[*ssa.Parameter]ssa.Value) ssa.Value {
	switch x := v.(type) {
	case *ssa.Const, *ssa.Global, *ssa.Function, *ssa.Builtin:
		return v
	case *ssa.Parameter:
		if a, ok := bind[x]; ok {
			return a
		}
	case *Bound:
		return x
	}
	return &Bound{V: v, Bind: bind}
}

// Unbind returns the callee-side value of a Bound (or v itself).
func Unbind(v ssa.Value) (ssa.Value, map[*ssa.Parameter]ssa.Value) {
	if b, ok := v.(*Bound); ok {
		return b.V, b.Bind
	}
	return v, nil
}

// importedFacts: the facts a call to a helper of the module establishes at the call site
// on the given outcome. outcome: "nil" (error result is nil), "true" / "false" (boolean
// result). They are the facts common to all exits of the helper with that outcome,
// expressed as Bound values.
func importedFacts(c *ssa.Call, outcome string, depth int) []Fact {
	h := c.Call.StaticCallee()
	if h == nil || h.Blocks == nil || depth > 1 || h.Pkg == nil || !IsModule(h.Pkg.Pkg.Path()) || len(h.Params) != len(c.Call.Args) {
		return nil
	}
	bind := map[*ssa.Parameter]ssa.Value{}
	for i, prm := range h.Params {
		bind[prm] = c.Call.Args[i]
	}
	type key struct {
		cond  ssa.Value
		taken bool
	}
	var common map[key]Fact
	n := 0
	addExit := func(fs []Fact) {
		n++
		cur := map[key]Fact{}
		for _, f := range fs {
			cur[key{f.Cond, f.Taken}] = f
		}
		if common == nil {
			common = cur
			return
		}
		for k := range common {
			if _, ok := cur[k]; !ok {
				delete(common, k)
			}
		}
	}
	res := h.Signature.Results()
	for _, ret := range Returns(h) {
		if ret.Block() == h.Recover {
			continue
		}
		switch outcome {
		case "nil":
			if ClassifyReturn(ret) != ExitSuccess {
				// an exit that may return nil but is not a definite success still counts
				if ClassifyReturn(ret) == ExitFailure {
					continue
				}
			}
			addExit(factsAtDepth(ret.Block(), depth+1))
		case "true", "false":
			if res.Len() != 1 {
				return nil
			}
			want := outcome == "true"
			v := ResultValue(ret, 0)
			addBoolExit(v, want, factsAtDepth(ret.Block(), depth+1), addExit, 0)
		}
	}
	if n == 0 {
		return nil
	}
	var out []Fact
	for _, f := range common {
		out = append(out, Fact{Cond: bindValue(f.Cond, bind), Taken: f.Taken, If: f.If})
	}
	return out
}

// addBoolExit: the ways a returned boolean v can equal want, each with the facts that hold.
func addBoolExit(v ssa.Value, want bool, facts []Fact, add func([]Fact), depth int) {
	if c, ok := v.(*ssa.Const); ok && c.Value != nil {
		if (c.Value.ExactString() == "true") == want {
			add(facts)
		}
		return
	}
	if ph, ok := v.(*ssa.Phi); ok && depth < 3 {
		for i, e := range ph.Edges {
			pred := ph.Block().Preds[i]
			fs := factsAtDepth(pred, 2)
			fs = append(fs, edgeFact(pred, ph.Block())...)
			addBoolExit(e, want, fs, add, depth+1)
		}
		return
	}
	// a computed value: it equals want itself
	cond, pol := normCond(v, want)
	add(append(append([]Fact{}, facts...), Fact{Cond: cond, Taken: pol}))
}

func edgeFact(from, to *ssa.BasicBlock) []Fact {
	if len(from.Instrs) == 0 {
		return nil
	}
	ifi, ok := from.Instrs[len(from.Instrs)-1].(*ssa.If)
	if !ok || from.Succs[0] == from.Succs[1] {
		return nil
	}
	if from.Succs[0] == to {
		return []Fact{{Cond: ifi.Cond, Taken: true, If: ifi}}
	}
	if from.Succs[1] == to {
		return []Fact{{Cond: ifi.Cond, Taken: false, If: ifi}}
	}
	return nil
}

// BindValue / NormCond: exported forms for the rule packages.
func BindValue(v ssa.Value, bind map[*ssa.Parameter]ssa.Value) ssa.Value { return bindValue(v, bind) }
func NormCond(v ssa.Value, taken bool) (ssa.Value, bool)                 { return normCond(v, taken) }

// EdgeFacts: the facts holding on the CFG edge from -> to: those at from plus the branch taken.
func EdgeFacts(from, to *ssa.BasicBlock) []Fact {
	return append(append([]Fact{}, FactsAt(from)...), edgeFact(from, to)...)
}
