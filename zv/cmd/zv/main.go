// Command zv: repository-specific static analysers for 0chain.
//
//	zv check <Cnn> [--tier quick|thorough] [--only <obligation-key-substring>]
//	zv all [--tier quick|thorough]      run every registered checker in one process
//	zv list
package main

import (
	"fmt"
	"os"
	"runtime/debug"
	"strings"

	"zv/core"
	"zv/props"
)

func usage() {
	fmt.Fprintln(os.Stderr, "usage: zv check <Cnn> [--tier quick|thorough] [--only key] | zv all [--tier t] | zv list")
	os.Exit(2)
}

func main() {
	if len(os.Args) < 2 {
		usage()
	}
	tier := os.Getenv("VERIF_TIER")
	if tier == "" {
		tier = "quick"
	}
	only := ""
	var pos []string
	args := os.Args[2:]
	for i := 0; i < len(args); i++ {
		switch args[i] {
		case "--tier":
			i++
			if i < len(args) {
				tier = args[i]
			}
		case "--only":
			i++
			if i < len(args) {
				only = args[i]
			}
		default:
			pos = append(pos, args[i])
		}
	}
	if tier != "quick" && tier != "thorough" {
		usage()
	}
	switch os.Args[1] {
	case "list":
		for _, id := range props.IDs() {
			fmt.Println(id)
		}
	case "inventory":
		p, err := core.Load(core.RepoRootFromEnv())
		if err != nil {
			fmt.Println("ERROR load:", err)
			os.Exit(1)
		}
		if len(pos) > 0 && pos[0] == "transfers" {
			props.InventoryTransfers(p)
		} else {
			props.Inventory(p)
		}
	case "ssa":
		p, err := core.Load(core.RepoRootFromEnv())
		if err != nil {
			fmt.Println("ERROR load:", err)
			os.Exit(1)
		}
		for _, n := range pos {
			f := p.Func(n)
			if f == nil {
				fmt.Println("not found:", n)
				for _, g := range p.AllFuncs {
					if strings.Contains(g.String(), n) {
						fmt.Println("  candidate:", g.String())
					}
				}
				continue
			}
			f.WriteTo(os.Stdout)
		}
	case "check":
		if len(pos) != 1 {
			usage()
		}
		os.Exit(runOne(pos[0], tier, only, nil))
	case "all":
		p, err := core.Load(core.RepoRootFromEnv())
		if err != nil {
			fmt.Println("ERROR load:", err)
			os.Exit(1)
		}
		rc := 0
		ids := props.IDs()
		if len(pos) > 0 {
			ids = pos
		}
		for _, id := range ids {
			if c := runOne(id, tier, only, p); c != 0 {
				rc = 1
			}
		}
		os.Exit(rc)
	default:
		usage()
	}
}

func runOne(id, tier, only string, p *core.Prog) (code int) {
	ck := props.Get(id)
	if ck == nil {
		fmt.Printf("ERROR unknown property %s\n", id)
		return 2
	}
	var r *core.Report
	defer func() {
		if e := recover(); e != nil {
			// fail closed: an engine panic is a violation with that reason
			if r == nil {
				r = core.NewReport(p, id, tier)
			}
			r.Fail("meta", "engine-panic", "", fmt.Sprintf("%v\n%s", e, debug.Stack()))
			code = r.Finish()
		}
	}()
	if p == nil {
		var err error
		p, err = core.Load(core.RepoRootFromEnv())
		if err != nil {
			r = core.NewReport(nil, id, tier)
			r.Level = ck.Level
			r.Explain = "the tree could not be loaded/type-checked; nothing was analysed"
			r.Fail("meta", "load", "", err.Error())
			return r.Finish()
		}
	}
	r = core.NewReport(p, id, tier)
	r.Level = ck.Level
	ck.Run(r, p, tier == "thorough")
	if only != "" {
		var keep []core.Ob
		for _, o := range r.Obs {
			if strings.Contains(o.Key, only) {
				keep = append(keep, o)
			}
		}
		r.Obs = keep
	}
	if len(r.Obs) == 0 {
		r.Fail("meta", "no-obligations", "", "the checker produced no obligations (vacuous)")
	}
	if tier == "thorough" && only == "" {
		runControls(id, r)
	}
	return r.Finish()
}
