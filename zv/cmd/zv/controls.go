package main

import (
	"fmt"
	"os"
	"os/exec"
	"path/filepath"
	"sort"
	"strings"
	"sync"

	"zv/core"
)

// Thorough tier, second half: run the property's rules against the stored controls.
//
// Positive controls (zv/mutants/<id>/*.patch) are variants of the current tree with one
// rule instance broken; every one must make the check report a violation.  Negative
// controls (zv/equiv/<id>/*.patch) are behaviour-preserving rewrites; the check must stay
// silent on them.  Each control is applied to a scratch copy of the tree under analysis
// (never to the tree itself) and analysed by this same binary.  A control whose patch no
// longer applies to the tree is skipped and reported as such.  The outcome is evidence
// about the checker (are the rules armed today?), not about the property: it is recorded
// in the evidence file and printed, and does not change the exit status.
type controlResult struct {
	Name   string
	Kind   string // positive | negative
	Status string // fired | survived | silent | alarmed | skipped | error
	Detail string
}

func runControls(id string, r *core.Report) {
	if os.Getenv("ZV_NO_CONTROLS") != "" {
		return
	}
	self, err := os.Executable()
	if err != nil {
		return
	}
	// the controls live next to the checker's sources: <root>/zv/mutants, <root>/zv/equiv
	verif := ""
	for _, cand := range []string{os.Getenv("ZV_CONTROLS"), filepath.Dir(filepath.Dir(self)), core.VerifDir(), "/verif"} {
		if cand == "" {
			continue
		}
		if st, err := os.Stat(filepath.Join(cand, "zv", "mutants")); err == nil && st.IsDir() {
			verif = cand
			break
		}
	}
	if verif == "" {
		return
	}
	var jobs []controlResult
	for _, kd := range [][2]string{{"mutants", "positive"}, {"equiv", "negative"}} {
		ps, _ := filepath.Glob(filepath.Join(verif, "zv", kd[0], id, "*.patch"))
		sort.Strings(ps)
		for _, p := range ps {
			jobs = append(jobs, controlResult{Name: p, Kind: kd[1]})
		}
	}
	if len(jobs) == 0 {
		return
	}
	repo := core.RepoRootFromEnv()
	sem := make(chan struct{}, 8)
	var wg sync.WaitGroup
	for i := range jobs {
		wg.Add(1)
		go func(j *controlResult) {
			defer wg.Done()
			sem <- struct{}{}
			defer func() { <-sem }()
			runControl(self, repo, verif, id, j)
		}(&jobs[i])
	}
	wg.Wait()
	sum := map[string]int{}
	var bad []string
	var list []map[string]string
	for _, j := range jobs {
		sum[j.Kind+":"+j.Status]++
		name := strings.TrimSuffix(filepath.Base(j.Name), ".patch")
		list = append(list, map[string]string{"control": name, "kind": j.Kind, "status": j.Status})
		if j.Status == "survived" || j.Status == "alarmed" || j.Status == "error" {
			bad = append(bad, fmt.Sprintf("%s %s: %s %s", j.Kind, name, j.Status, j.Detail))
		}
	}
	r.Info["controls"] = list
	r.Info["controls_summary"] = sum
	fmt.Printf("CONTROLS property=%s positive: fired=%d survived=%d skipped=%d; negative: silent=%d alarmed=%d skipped=%d\n", id,
		sum["positive:fired"], sum["positive:survived"], sum["positive:skipped"], sum["negative:silent"], sum["negative:alarmed"], sum["negative:skipped"])
	for _, b := range bad {
		fmt.Println("  control: " + b)
	}
}

func runControl(self, repo, verif, id string, j *controlResult) {
	tmp, err := os.MkdirTemp("", "zvctl.")
	if err != nil {
		j.Status, j.Detail = "error", err.Error()
		return
	}
	defer os.RemoveAll(tmp)
	dst := filepath.Join(tmp, "repo")
	if out, err := exec.Command("rsync", "-a", "--exclude", ".git", repo+"/", dst+"/").CombinedOutput(); err != nil {
		// fall back to cp
		if out2, err2 := exec.Command("cp", "-a", repo, dst).CombinedOutput(); err2 != nil {
			j.Status, j.Detail = "error", string(out)+string(out2)
			return
		}
		os.RemoveAll(filepath.Join(dst, ".git"))
	}
	pc := exec.Command("patch", "-p1", "--no-backup-if-mismatch", "-s", "-f", "-i", j.Name)
	pc.Dir = dst
	if out, err := pc.CombinedOutput(); err != nil {
		j.Status, j.Detail = "skipped", "patch does not apply to this tree: "+firstLine(string(out))
		return
	}
	vdir := filepath.Join(tmp, "verif")
	os.MkdirAll(filepath.Join(vdir, "evidence"), 0o755)
	if b, err := os.ReadFile(filepath.Join(core.VerifDir(), "known_findings.json")); err == nil {
		os.WriteFile(filepath.Join(vdir, "known_findings.json"), b, 0o644)
	}
	c := exec.Command(self, "check", id, "--tier", "quick")
	c.Env = append(os.Environ(), "ZV_REPO="+dst, "ZV_VERIF="+vdir, "ZV_NO_CONTROLS=1")
	out, _ := c.CombinedOutput()
	txt := string(out)
	code := c.ProcessState.ExitCode()
	if strings.Contains(txt, "meta load") {
		j.Status, j.Detail = "skipped", "variant does not type-check on this tree"
		return
	}
	violated := code == 1 && strings.Contains(txt, "VIOLATION property="+id)
	switch j.Kind {
	case "positive":
		if violated {
			j.Status = "fired"
		} else {
			j.Status, j.Detail = "survived", "the broken variant was not reported"
		}
	default:
		if code == 0 && !strings.Contains(txt, "VIOLATION") {
			j.Status = "silent"
		} else {
			j.Status = "alarmed"
			for _, l := range strings.Split(txt, "\n") {
				if strings.Contains(l, "violated:") {
					j.Detail = strings.TrimSpace(l)
					break
				}
			}
		}
	}
}

func firstLine(s string) string {
	if i := strings.Index(s, "\n"); i >= 0 {
		return s[:i]
	}
	return s
}
