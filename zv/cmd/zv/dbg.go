package main

import (
	"fmt"

	"zv/core"
)

func dbg(p *core.Prog) {
	fmt.Println("modpkgs", len(p.ModPkgs), "ssapkgs", len(p.SSAPkgs), "funcs", p.NFuncs, "load", p.LoadWall)
	n := 0
	for path, sp := range p.SSAPkgs {
		if core.IsFirstParty(path) {
			n++
			if n < 4 {
				fmt.Println(path, len(sp.Members))
			}
		}
	}
	fmt.Println("firstparty ssa pkgs", n)
}
